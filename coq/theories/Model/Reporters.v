(** Every reporter of cmd/hranoprovod-cli/internal/*, each transliterated from
    its own Go code (the point of property C07 is that there are seven
    re-implementations of "quantity x resolved element").  A reporter is a step
    machine: state, [process] per selected day (returning the chunks it writes),
    [flush] at the end.  Row-level functions (what is computed) are kept apart
    from rendering (how it is printed).  Model only. *)
From HP Require Import Base.Bytes Base.Utf8 Base.Num Model.Elements Model.Dates Model.Tree Model.Writer Model.Regex.

Section Reporters.
  Context (NM : Num).
  Notation T := (T NM).
  Notation elements := (elements NM).
  Notation db := (list (bytes * elements)).

  Record lognode := { ln_time : time; ln_elems : elements; ln_meta : option (list (bytes * bytes)) }.

  (** reporter.Config (the fields that reach a reporter) *)
  Record rconfig := {
    rc_color : bool;
    rc_totals_only : bool;
    rc_totals : bool;
    rc_date : list ltoken;          (* DateFormat *)
    rc_single_element : bytes;
    rc_single_food : bytes;
    rc_collapse_last : bool;
    rc_collapse : bool;
    rc_group_food : bool;
    rc_shorten : bool;
    rc_old : bool;                  (* UseOldRegReporter *)
    rc_template : bytes;            (* InternalTemplateName *)
    rc_csv : bool
  }.

  (** errors a command can end with *)
  Inductive cerr :=
  | EParse (msg : bytes)         (* parser error, exact message *)
  | EScan (tl : bool)            (* scanner: read error / token too long *)
  | EMaxDepth
  | EBadDate
  | EOpen
  | ERegexp
  | EUsage (msg : bytes)
  | EConfigMissing
  | EConfigSyntax                (* gcfg rejected the text of the configuration file *)
  | EWrite
  | EUnmodelled (why : bytes).

  (** *** formatting helpers (fmt verbs) *)
  Definition pad_left (w : nat) (s : bytes) : bytes := brepeat [c_space] (w - rune_count s) ++ s.
  Definition pad_right (w : nat) (s : bytes) : bytes := s ++ brepeat [c_space] (w - rune_count s).
  Definition f2 (v : T) : bytes := fmt_fixed NM 2 v.                  (* %0.2f *)
  Definition f3 (v : T) : bytes := fmt_fixed NM 3 v.                  (* %0.3f *)
  Definition f10_2 (v : T) : bytes := pad_left 10 (f2 v).             (* %10.2f *)
  Definition f12_2 (v : T) : bytes := pad_left 12 (f2 v).             (* %12.2f *)

  Definition esc_reset : bytes := 27%N :: b "[0m".
  Definition esc_red : bytes := 27%N :: b "[31m".
  Definition esc_green : bytes := 27%N :: b "[32m".

  (** formatValue (templates) and cNum (old reporter): the same rule written twice in Go *)
  Definition format_value (color : bool) (v : T) : bytes :=
    if color then
      if ltb NM (zero NM) v then esc_red ++ f10_2 v ++ esc_reset
      else if ltb NM v (zero NM) then esc_green ++ f10_2 v ++ esc_reset
      else f10_2 v
    else f10_2 v.

  (** aquilax/truncate, PositionMiddle, omission "…" (one rune) *)
  Definition truncate_middle (s : bytes) (len : nat) : bytes :=
    let r := rune_values s in
    let slen := length r in
    if Nat.leb slen len then s
    else if Nat.ltb len 3 then encode_runes (firstn len r)
    else
      let delta := if Nat.even slen then Nat.div (len - 1 + 1) 2 else Nat.div (len - 1) 2 in
      encode_runes (firstn delta r ++ [8230%N] ++ skipn (slen - len + 1 + delta) r).

  Definition shorten (on : bool) (s : bytes) (max : nat) : bytes :=
    if on then truncate_middle s max else s.

  Definition fdate (c : rconfig) (t : time) : bytes := format_date (rc_date c) (civ t).

  (** *** GetReportItem (report_item.go) *)

  Definition total_row := (bytes * T * T * T)%type.   (* name, positive, negative, sum *)

  (** the contributions of a day: every (element, value) pair in the order the
      code feeds them to the accumulator *)
  Definition ingredients_of (d : db) (name : bytes) (v : T) : elements :=
    match lookup name d with
    | Some els => map (fun nx => (fst nx, mul NM (snd nx) v)) els
    | None => [(name, v)]
    end.

  Definition report_elements (d : db) (ln : lognode) : list (bytes * T * elements) :=
    map (fun nv => (fst nv, snd nv, ingredients_of d (fst nv) (snd nv))) (ln_elems ln).

  Definition contributions (d : db) (ln : lognode) : elements :=
    flat_map (fun nv => ingredients_of d (fst nv) (snd nv)) (ln_elems ln).

  Definition accumulate (cs : elements) : accumulator NM :=
    fold_left (fun acc nv => acc_add NM (fst nv) (snd nv) acc) cs [].

  (** newTotalFromAccumulator: names in map order, sorted, then rows *)
  Definition totals_of_acc (perm : list bytes -> list bytes) (acc : accumulator NM) : list total_row :=
    filter_some
      (map (fun name => match lookup name acc with
                        | Some (p, n) => Some (name, p, n, add NM p n)
                        | None => None
                        end) (sort_bytes (perm (keys acc)))).

  Record report_item := {
    ri_time : time;
    ri_elements : list (bytes * T * elements);     (* empty when TotalsOnly *)
    ri_totals : option (list total_row)            (* None when Totals is off *)
  }.

  Definition get_report_item (c : rconfig) (perm : list bytes -> list bytes) (d : db) (ln : lognode) : report_item :=
    {| ri_time := ln_time ln;
       ri_elements := if rc_totals_only c then [] else report_elements d ln;
       ri_totals := if rc_totals c then Some (totals_of_acc perm (accumulate (contributions d ln))) else None |}.

  (** *** the two register templates and the summary template *)
  Definition total_header_default : bytes := c_tab :: b "-- TOTAL  " ++ brepeat (b "-") 52.
  Definition total_header_left : bytes := brepeat (b "-") 55 ++ b " TOTAL --".

  Definition render_default (c : rconfig) (it : report_item) : bytes :=
    fdate c (ri_time it)
    ++ flat_map (fun e =>
         let '(name, v, ings) := e in
         [c_lf; c_tab] ++ pad_right 27 (shorten (rc_shorten c) name 27) ++ b " :" ++ format_value (rc_color c) v
         ++ flat_map (fun i => [c_lf; c_tab; c_tab] ++ pad_left 20 (shorten (rc_shorten c) (fst i) 20) ++ b " "
                               ++ format_value (rc_color c) (snd i)) ings)
       (ri_elements it)
    ++ match ri_totals it with
       | None => []
       | Some ts =>
           [c_lf] ++ total_header_default
           ++ flat_map (fun t =>
                let '(name, p, n, s) := t in
                [c_lf; c_tab; c_tab] ++ pad_left 20 (shorten (rc_shorten c) name 20) ++ b " "
                ++ format_value (rc_color c) p ++ b " " ++ format_value (rc_color c) n ++ b " ="
                ++ format_value (rc_color c) s) ts
       end
    ++ [c_lf].

  Definition render_left (c : rconfig) (it : report_item) : bytes :=
    fdate c (ri_time it)
    ++ flat_map (fun e =>
         let '(name, v, ings) := e in
         [c_lf] ++ b "  " ++ format_value (rc_color c) v ++ b "  " ++ name
         ++ flat_map (fun i => [c_lf] ++ b "  " ++ format_value (rc_color c) (snd i) ++ b "    " ++ fst i) ings)
       (ri_elements it)
    ++ match ri_totals it with
       | None => []
       | Some ts =>
           [c_lf] ++ total_header_left
           ++ flat_map (fun t =>
                let '(name, p, n, s) := t in
                [c_lf] ++ b "  " ++ format_value (rc_color c) p ++ b " " ++ format_value (rc_color c) n
                ++ b " = " ++ format_value (rc_color c) s ++ b "  " ++ name) ts
       end
    ++ [c_lf].

  Definition render_summary (c : rconfig) (it : report_item) : bytes :=
    fdate c (ri_time it) ++ b " :"
    ++ match ri_totals it with
       | None => []
       | Some ts => flat_map (fun t => let '(name, p, n, s) := t in
                                       [c_lf] ++ format_value (rc_color c) p ++ b " : " ++ name) ts
       end
    ++ [c_lf] ++ b "------------"
    ++ flat_map (fun e => let '(name, v, ings) := e in [c_lf] ++ format_value (rc_color c) v ++ b " : " ++ name)
         (ri_elements it)
    ++ [c_lf].

  (** *** the reporter interface *)
  Record reporter := {
    RS : Type;
    r_init : RS;
    (* map-order oracle for this call, state, node -> new state, chunks written, error returned by Process *)
    r_process : (list bytes -> list bytes) -> RS -> lognode -> RS * list chunk * option cerr;
    (* what Flush() writes before flushing the buffer (map-order oracle for this call first) *)
    r_flush : (list bytes -> list bytes) -> RS -> list chunk;
    (* a partial Go operation (index, nil dereference) that went wrong, if any *)
    r_panic : RS -> option bytes
  }.

  Definition unchecked (s : bytes) : chunk := (s, false).
  Definition checked (s : bytes) : chunk := (s, true).

  (** The order in which the runtime delivers the keys of a map that a call
      ranges over is an argument of [r_process] / [r_flush] (supplied by the
      walk: one oracle per day for Process, one for Flush), so a reporter
      value itself does not depend on it. *)

  (** regReporterTemplate *)
  Definition rep_template (c : rconfig) (d : db) : reporter := {|
    RS := unit; r_init := tt;
    r_process := fun perm _ ln =>
      let it := get_report_item c perm d ln in
      (tt, [checked (if beq (rc_template c) (b "left-aligned") then render_left c it else render_default c it)], None);
    r_flush := fun _ _ => [];
    r_panic := fun _ => None
  |}.

  (** summaryReporterTemplate *)
  Definition rep_summary (c : rconfig) (d : db) : reporter := {|
    RS := unit; r_init := tt;
    r_process := fun perm _ ln => (tt, [checked (render_summary c (get_report_item c perm d ln))], None);
    r_flush := fun _ _ => [];
    r_panic := fun _ => None
  |}.

  (** regReporter (the old one): its own accounting *)
  Definition old_rows (c : rconfig) (d : db) (ln : lognode) : list chunk :=
    flat_map (fun nv =>
      let '(name, v) := nv in
      (if rc_totals_only c then [] else
         [unchecked ([c_tab] ++ pad_right 27 name ++ b " :" ++ format_value (rc_color c) v ++ [c_lf])])
      ++ (if rc_totals_only c then [] else
            map (fun i => unchecked ([c_tab; c_tab] ++ pad_left 20 (fst i) ++ b " "
                                     ++ format_value (rc_color c) (snd i) ++ [c_lf]))
                (ingredients_of d name v)))
      (ln_elems ln).

  Definition old_totals (c : rconfig) (perm : list bytes -> list bytes) (d : db) (ln : lognode) : list chunk :=
    if rc_totals c then
      let acc := accumulate (contributions d ln) in
      match acc with
      | [] => []
      | _ =>
          unchecked (total_header_default ++ [c_lf])
          :: map (fun t => let '(name, p, n, s) := t in
                   unchecked ([c_tab; c_tab] ++ pad_left 20 name ++ b " " ++ format_value (rc_color c) p ++ b " "
                              ++ format_value (rc_color c) n ++ b " =" ++ format_value (rc_color c) s ++ [c_lf]))
                 (totals_of_acc perm acc)
      end
    else [].

  Definition rep_old (c : rconfig) (d : db) : reporter := {|
    RS := unit; r_init := tt;
    r_process := fun perm _ ln =>
      (tt, unchecked (fdate c (ln_time ln) ++ [c_lf]) :: old_rows c d ln ++ old_totals c perm d ln, None);
    r_flush := fun _ _ => [];
    r_panic := fun _ => None
  |}.

  (** singleReporter (reg -s X) *)
  Definition single_contributions (d : db) (x : bytes) (ln : lognode) : elements :=
    flat_map (fun nv =>
      let '(name, v) := nv in
      match lookup name d with
      | Some els => flat_map (fun r => if beq (fst r) x then [(fst r, mul NM (snd r) v)] else []) els
      | None => if beq name x then [(name, v)] else []
      end) (ln_elems ln).

  (** [Some (pos, neg)] when the day has a row; [None] when not; the inner
      [option] models the map lookup [acc[singleElement]] whose failure would be
      an index-out-of-range panic *)
  Definition single_row (d : db) (x : bytes) (ln : lognode) : option (option (T * T)) :=
    match accumulate (single_contributions d x ln) with
    | [] => None
    | acc => Some (lookup x acc)
    end.

  Definition render_single (c : rconfig) (t : time) (p n : T) : bytes :=
    if rc_csv c then
      fdate c t ++ b ";""" ++ rc_single_element c ++ b """;" ++ f2 p ++ b ";" ++ f2 (mul NM (neg_one NM) n)
      ++ b ";" ++ f2 (add NM p n) ++ [c_lf]
    else
      fdate c t ++ b " " ++ pad_left 20 (rc_single_element c) ++ b " " ++ f10_2 p ++ b " "
      ++ f10_2 (mul NM (neg_one NM) n) ++ b " =" ++ f10_2 (add NM p n) ++ [c_lf].

  Inductive outcome_panic := Panic (site : bytes).

  Definition rep_single (c : rconfig) (d : db) : reporter := {|
    RS := option outcome_panic; r_init := None;
    r_process := fun _ st ln =>
      match single_row d (rc_single_element c) ln with
      | None => (st, [], None)
      | Some (Some (p, n)) => (st, [unchecked (render_single c (ln_time ln) p n)], None)
      | Some None => (Some (Panic (b "single_reporter.go:44 index out of range")), [], None)
      end;
    r_flush := fun _ _ => [];
    r_panic := fun st => match st with Some (Panic site) => Some site | None => None end
  |}.

  (** elementByFoodReporter (reg -s X -g) *)
  Definition byfood_contributions (d : db) (x : bytes) (ln : lognode) : elements :=
    flat_map (fun nv =>
      let '(name, v) := nv in
      match lookup name d with
      | Some els => flat_map (fun r => if beq (fst r) x then [(name, mul NM (snd r) v)] else []) els
      | None => if beq name x then [(name, v)] else []     (* a food the book does not define stands for itself (fix F26) *)
      end) (ln_elems ln).

  Definition rep_byfood (c : rconfig) (d : db) : reporter := {|
    RS := accumulator NM; r_init := [];
    r_process := fun _ acc ln =>
      (fold_left (fun a nv => acc_add NM (fst nv) (snd nv) a) (byfood_contributions d (rc_single_element c) ln) acc, [], None);
    r_flush := fun perm_flush acc =>
      map (fun t => let '(name, p, n, s) := t in unchecked (f10_2 s ++ [c_tab] ++ name ++ [c_lf]))
          (totals_of_acc perm_flush acc);
    r_panic := fun _ => None
  |}.

  (** singleFoodReporter (reg -f PATTERN): [regexp.MatchString(PATTERN, name)]
      per food; the error of an invalid pattern comes from the first Process
      call that has a food.  The pattern is parsed by [Model/Regex.v]
      ([parse_regex]: the subset of RE2 people type; what it declines stays
      outside the model).  A pattern made only of letters, digits, blanks, [/]
      and non-ASCII bytes that is valid UTF-8 without U+FFFD takes a fast path:
      a substring search on the bytes.  The two paths agree there
      ([Proofs/RegexPlain.v], [plain_is_literal]: [parse_regex p] is the literal
      of the runes of [p] and its [re_search] is [contains p]); without the
      UTF-8 condition they do not (Go rejects an invalid byte in the pattern,
      and a U+FFFD of the pattern matches an invalid byte of the name). *)
  Definition plain_pattern (p : bytes) : bool :=
    forallb (fun c => (is_digit c || ((97 <=? lower c) && (lower c <=? 122)) || (c =? 32) || (c =? 47)
                       || (128 <=? c))%N%bool) p.

  Definition rep_single_food (c : rconfig) : reporter := {|
    RS := unit; r_init := tt;
    r_process := fun _ _ ln =>
      match ln_elems ln with
      | [] => (tt, [], None)
      | _ =>
        if plain_pattern (rc_single_food c) && valid_utf8_no_fffd (rc_single_food c) then
          (tt, flat_map (fun nv => if contains (rc_single_food c) (fst nv)
                                   then [unchecked (fdate c (ln_time ln) ++ [c_tab] ++ fst nv ++ [c_tab] ++ f2 (snd nv) ++ [c_lf])]
                                   else []) (ln_elems ln), None)
        else
          match parse_regex (rc_single_food c) with
          | ReOk re =>
              (tt, flat_map (fun nv => if re_search re (fst nv)
                                       then [unchecked (fdate c (ln_time ln) ++ [c_tab] ++ fst nv ++ [c_tab] ++ f2 (snd nv) ++ [c_lf])]
                                       else []) (ln_elems ln), None)
          | ReError => (tt, [], Some ERegexp)
          | ReUnmodelled => (tt, [], Some (EUnmodelled (b "regexp")))
          end
      end;
    r_flush := fun _ _ => [];
    r_panic := fun _ => None
  |}.

  (** balanceReporter, balanceReporterCollapsed *)
  Definition tree_add_all (root : tree NM) (els : elements) : tree NM :=
    fold_left (fun t nv => tree_add NM t (fst nv) (snd nv)) els root.

  Definition balance_rows (perm_flush : list bytes -> list bytes) (collapse collapse_last : bool) (root : tree NM) : list (row NM) :=
    let ot := order_tree NM perm_flush root in
    if collapse then print_collapsed NM ot else print_node NM collapse_last O ot.

  Definition rep_balance (c : rconfig) : reporter := {|
    RS := tree NM; r_init := empty_root NM;
    r_process := fun _ t ln => (tree_add_all t (ln_elems ln), [], None);
    r_flush := fun perm_flush t =>
      map (fun r => (render_row NM r, rc_collapse c)) (balance_rows perm_flush (rc_collapse c) (rc_collapse_last c) t);
    r_panic := fun _ => None
  |}.

  (** balanceSingleReporter *)
  Definition bal_single_contributions (d : db) (x : bytes) (ln : lognode) : elements :=
    flat_map (fun nv =>
      let '(name, v) := nv in
      match lookup name d with
      | Some els => flat_map (fun r => if beq (fst r) x then [(name, mul NM (snd r) v)] else []) els
      | None => if beq name x then [(name, v)] else []
      end) (ln_elems ln).

  Definition rep_balance_single (c : rconfig) (d : db) : reporter := {|
    RS := tree NM * T; r_init := (empty_root NM, zero NM);
    r_process := fun _ st ln =>
      let cs := bal_single_contributions d (rc_single_element c) ln in
      ((tree_add_all (fst st) cs, fold_left (fun a nv => add NM a (snd nv)) cs (snd st)), [], None);
    r_flush := fun perm_flush st =>
      map (fun r => (render_row NM r, rc_collapse c)) (balance_rows perm_flush (rc_collapse c) (rc_collapse_last c) (fst st))
      ++ [checked (brepeat (b "-") 11 ++ b "|" ++ [c_lf]);
          checked (f10_2 (snd st) ++ b " | " ++ rc_single_element c ++ [c_lf])];
    r_panic := fun _ => None
  |}.

  (** TotalReporter (report totals) *)
  Definition rep_totals (d : db) : reporter := {|
    RS := accumulator NM; r_init := [];
    r_process := fun _ acc ln =>
      (fold_left (fun a nv => acc_add NM (fst nv) (snd nv) a) (contributions d ln) acc, [], None);
    r_flush := fun perm_flush acc =>
      match acc with
      | [] => []
      | _ =>
          unchecked (pad_left 12 (b "positive") ++ b "  " ++ pad_left 12 (b "negative") ++ b "  "
                     ++ pad_left 12 (b "sum") ++ b "  element" ++ [c_lf])
          :: map (fun t => let '(name, p, n, s) := t in
                   checked (f12_2 p ++ b "  " ++ f12_2 n ++ b "  " ++ f12_2 s ++ b "  " ++ name ++ [c_lf]))
                 (totals_of_acc perm_flush acc)
      end;
    r_panic := fun _ => None
  |}.

  (** QuantityReporter (report quantity): [acc[name] = 0] then [+=] *)
  Definition qty_add (name : bytes) (v : T) (acc : elements) : elements :=
    match lookup name acc with
    | Some x => set name (add NM x v) acc
    | None => acc ++ [(name, add NM (zero NM) v)]
    end.

  (** stable sort on the value only, starting from the names in sorted order *)
  Definition value_less (desc : bool) (x y : bytes * T) : bool :=
    if desc then ltb NM (snd y) (snd x) else ltb NM (snd x) (snd y).

  (** sort.SliceStable's insertion sort (what it runs for up to 20 elements):
      elements are taken left to right and each moves left while it is less
      than its predecessor.  [revl] is the sorted prefix, reversed. *)
  Fixpoint go_insert (less : bytes * T -> bytes * T -> bool) (x : bytes * T) (revl : elements) : elements :=
    match revl with
    | [] => [x]
    | y :: r => if less x y then y :: go_insert less x r else x :: revl
    end.

  Definition sort_by_value (desc : bool) (l : elements) : elements :=
    rev (fold_left (fun revl x => go_insert (value_less desc) x revl) l []).

  Definition named_in_order (perm : list bytes -> list bytes) (acc : elements) : elements :=
    filter_some (map (fun n => option_map (fun v => (n, v)) (lookup n acc)) (sort_bytes (perm (keys acc)))).

  Definition has_nan (l : elements) : bool := existsb (fun nv => is_nan NM (snd nv)) l.

  Definition rep_quantity (desc : bool) : reporter := {|
    RS := elements; r_init := [];
    r_process := fun _ acc ln => (fold_left (fun a nv => qty_add (fst nv) (snd nv) a) (ln_elems ln) acc, [], None);
    r_flush := fun perm_flush acc =>
      map (fun nv => unchecked (f2 (snd nv) ++ [c_tab] ++ fst nv ++ [c_lf]))
          (sort_by_value desc (named_in_order perm_flush acc));
    r_panic := fun _ => None
  |}.

  (** UnsolvedReporter (report unresolved) *)
  Definition rep_unresolved (d : db) : reporter := {|
    RS := list bytes; r_init := [];
    r_process := fun _ l ln =>
      (fold_left (fun a nv => match lookup (fst nv) d with
                              | Some _ => a
                              | None => if existsb (beq (fst nv)) a then a else a ++ [fst nv]
                              end) (ln_elems ln) l, [], None);
    r_flush := fun perm_flush l => map (fun n => unchecked (n ++ [c_lf])) (sort_bytes (perm_flush l));
    r_panic := fun _ => None
  |}.

  (** encoding/csv Writer *)
  Definition csv_needs_quotes (f : bytes) : bool :=
    match f with
    | [] => false
    | _ =>
        beq f (b "\.")
        || existsb (fun c => (c =? c_lf) || (c =? c_cr) || (c =? c_quote) || (c =? 44))%N f
        || match decode_rune f with Some (r, _) => is_space_rune r | None => false end
    end.

  Definition csv_field (f : bytes) : bytes :=
    if csv_needs_quotes f then
      [c_quote] ++ flat_map (fun c => if (c =? c_quote)%N then [c_quote; c_quote] else [c]) f ++ [c_quote]
    else f.

  Definition csv_record (fs : list bytes) : bytes := join [44%N] (map csv_field fs) ++ [c_lf].

  Definition iso_date : list ltoken := [Y4; Lit 45%N; M2; Lit 45%N; D2].

  (** CSVReporter (csv log) *)
  Definition csv_log_rows (ln : lognode) : list (list bytes) :=
    map (fun nv => [format_date iso_date (civ (ln_time ln)); fst nv; f3 (snd nv)]) (ln_elems ln).

  Definition rep_csv_log : reporter := {|
    RS := unit; r_init := tt;
    r_process := fun _ _ ln => (tt, map (fun r => checked (csv_record r)) (csv_log_rows ln), None);
    r_flush := fun _ _ => [];
    r_panic := fun _ => None
  |}.

  (** CSVDatabaseReporter.Process *)
  Definition csv_db_rows (header : bytes) (els : elements) : list (list bytes) :=
    map (fun nv => [header; fst nv; f2 (snd nv)]) els.

  (** PrintReporter *)
  Definition print_chunks (c : rconfig) (ln : lognode) : list chunk :=
    checked (fdate c (ln_time ln) ++ b ":" ++ [c_lf])
    :: match ln_meta ln with
       | None => []
       | Some l => map (fun mp => if match fst mp with [] => false | _ => true end
                                  then checked (b "  # " ++ fst mp ++ b ": " ++ snd mp ++ [c_lf])
                                  else checked (b "  # " ++ snd mp ++ [c_lf])) l
       end
    ++ map (fun nv => checked (b "  - " ++ fst nv ++ b ": " ++ f2 (snd nv) ++ [c_lf])) (ln_elems ln)
    ++ [checked [c_lf]].

  Definition rep_print (c : rconfig) : reporter := {|
    RS := unit; r_init := tt;
    r_process := fun _ _ ln => (tt, print_chunks c ln, None);
    r_flush := fun _ _ => [];
    r_panic := fun _ => None
  |}.

  (** NewRegReporter's choice *)
  Definition reg_reporter (c : rconfig) (d : db) : reporter :=
    match rc_single_element c with
    | _ :: _ => if rc_group_food c then rep_byfood c d else rep_single c d
    | [] =>
        match rc_single_food c with
        | _ :: _ => rep_single_food c
        | [] => if rc_old c then rep_old c d else rep_template c d
        end
    end.

  (** balance.getReporter's choice *)
  Definition bal_reporter (c : rconfig) (d : db) : reporter :=
    match rc_single_element c with
    | _ :: _ => rep_balance_single c d
    | [] => rep_balance c
    end.
End Reporters.
