(** [bufio.Scanner] with [ScanLines] at the level of its buffer (Go 1.23.5,
    bufio/scan.go).  [Model/Scanner.scan] describes the scanner as a function of
    the whole input; this file transliterates [Scanner.Scan] itself: the buffer
    (capacity, start offset, unconsumed bytes), the sticky error, the split
    function, the shift / grow / ErrTooLong rule and the inner read loop with
    its [maxConsecutiveEmptyReads] rule, fed by a reader that is a list of
    read results.  Executable definitions only; the proofs that the way the
    bytes are delivered never matters are in [Proofs/ScannerBuf*.v].

    What is abstracted, and why it is unobservable with [ScanLines]:
    - the contents of [buf] outside [buf[start:end]] (never read again);
    - [ErrNegativeAdvance] / [ErrAdvanceTooFar] ([ScanLines] advances by
      [i+1 <= len data] or [len data]); [ErrBadReadCount] (the reader below
      returns [0 <= n <= len p]); [ErrFinalToken] ([ScanLines] never returns it);
    - the [empties] counter / panic (a token delivered at EOF always advances:
      the data is non-empty then);
    - [Scan] is called again after each token and the program stops at the
      first [false]: one loop, a token = one more turn. *)
From Coq Require Import List NArith Bool.
From HP Require Import Base.Bytes Model.Scanner.
Import ListNotations.
Open Scope N_scope.

(** * The reader

    Each [Read(p)] call consumes the head of the list.  [RChunk bs]: the
    operating system has [bs] ready; [Read] returns [min (len bs) (len p)] bytes
    of it with a nil error and the remainder stays for the next call
    ([RChunk []] is a read of 0 bytes with a nil error).  [RErr]: [Read]
    returns [(0, err)] with [err] other than [io.EOF]; the scanner never reads
    again after an error, so whatever follows an [RErr] is irrelevant.  The
    empty list: [Read] returns [(0, io.EOF)].

    The [io.Reader] contract also allows a reader to return its last bytes
    TOGETHER with the error or [io.EOF] in the same call ([os.File], which is
    what the program reads from, never does: it returns [(n > 0, nil)] or
    [(0, err)]).  [RLast bs failing] is such a final call: if [bs] fits the
    free space, [Read] returns [(len bs, err)] with [err] the reader's error
    ([failing = true]) or [io.EOF] ([false]); otherwise the part that fits is
    returned with a nil error and the rest stays. *)
Inductive read_result := RChunk (bs : bytes) | RErr | RLast (bs : bytes) (failing : bool).

Definition start_buf_size : N := 4096.                 (* startBufSize *)
Definition max_consecutive_empty_reads : N := 100.     (* maxConsecutiveEmptyReads *)
Definition max_int : N := 9223372036854775807.         (* int(^uint(0) >> 1) on amd64 *)
(* MaxScanTokenSize = 64 * 1024 is [Scanner.max_token] *)

(** [s.err] once a [Read] has set it ([ErrTooLong] ends the scan on the spot) *)
Inductive serr := SErrEOF | SErrRead | SErrNoProgress.

(** how the scan ended: as in [Model/Scanner], plus [io.ErrNoProgress] *)
Inductive chunk_end := CEnd (e : scan_end) | CNoProgress.

Definition end_of_err (e : serr) : chunk_end :=
  match e with
  | SErrEOF => CEnd ScanEOF            (* Err() turns io.EOF into nil *)
  | SErrRead => CEnd ScanReadErr
  | SErrNoProgress => CNoProgress
  end.

(** * ScanLines

    [(0, nil, nil)] is [NeedMore]; [(advance, token, nil)] with a non-nil token
    is [Token advance token].  [dropCR] is [Scanner.drop_cr]. *)
Inductive split_result := NeedMore | Token (advance : nat) (tok : bytes).

Definition is_nil {A} (l : list A) : bool := match l with [] => true | _ => false end.

Definition scan_lines (data : bytes) (at_eof : bool) : split_result :=
  if at_eof && is_nil data then NeedMore
  else match index_byte c_lf data with
       | Some i => Token (S i) (drop_cr (firstn i data))
       | None => if at_eof then Token (length data) (drop_cr data) else NeedMore
       end.

(** * The inner read loop

    [for loop := 0; ; { n, err := s.r.Read(s.buf[s.end:len(s.buf)]) ... }] with
    [free = len(s.buf) - s.end].  Result: the bytes appended to the buffer, the
    reader afterwards, and the error recorded by [setErr] if any. *)
Fixpoint read_loop (free : nat) (loop : N) (rd : list read_result)
  : bytes * list read_result * option serr :=
  match rd with
  | [] => ([], [], Some SErrEOF)
  | RErr :: _ => ([], rd, Some SErrRead)
  | RChunk bs :: rest =>
      match bs with
      | [] =>                                                  (* n = 0, err = nil *)
          let loop' := loop + 1 in
          if max_consecutive_empty_reads <? loop' then ([], rest, Some SErrNoProgress)
          else read_loop free loop' rest
      | _ :: _ =>                                              (* n > 0: break *)
          (firstn free bs,
           match skipn free bs with [] => rest | more => RChunk more :: rest end,
           None)
      end
  | RLast bs failing :: rest =>
      if (length bs <=? free)%nat then                         (* n = len bs (possibly 0), err != nil *)
        (bs, rest, Some (if failing then SErrRead else SErrEOF))
      else (firstn free bs, RLast (skipn free bs) failing :: rest, None)
  end.

(** * Shift and grow

    The buffer is described by [cap = len(s.buf)], [start = s.start] and the
    length [n = s.end - s.start] of the unconsumed bytes. *)

(** [if s.start > 0 && (s.end == len(s.buf) || s.start > len(s.buf)/2)]: the new [start] *)
Definition shift (cap start n : N) : N :=
  if (0 <? start) && ((start + n =? cap) || (cap / 2 <? start)) then 0 else start.

(** [if s.end == len(s.buf) { ... }]: [None] is [ErrTooLong], otherwise the new
    [(cap, start)] *)
Definition grow (cap start n : N) : option (N * N) :=
  if start + n =? cap then
    if (max_token <=? cap) || (max_int / 2 <? cap) then None
    else
      let new_size := cap * 2 in
      let new_size := if new_size =? 0 then start_buf_size else new_size in
      Some (N.min new_size max_token, 0)
  else Some (cap, start).

(** * Scan, called until it returns false

    One unit of fuel = one turn of the [for] loop of [Scan].  [pend] is
    [s.buf[s.start:s.end]].  [None] = out of fuel (never happens from
    [scan_chunks_full]: see [Proofs/ScannerBuf.v]). *)
Fixpoint scan_loop (fuel : nat) (cap start : N) (pend : bytes) (err : option serr)
    (rd : list read_result) : option (list bytes * chunk_end) :=
  match fuel with
  | O => None
  | S fuel' =>
      let at_eof := match err with Some _ => true | None => false end in
      (* if s.end > s.start || s.err != nil { advance, token, err := s.split(...) *)
      let sp := if negb (is_nil pend) || at_eof then scan_lines pend at_eof else NeedMore in
      match sp with
      | Token adv tok =>
          (* s.advance(adv); return true; the caller calls Scan again *)
          match scan_loop fuel' cap (start + N.of_nat adv) (skipn adv pend) err rd with
          | Some (ls, e) => Some (tok :: ls, e)
          | None => None
          end
      | NeedMore =>
          match err with
          | Some e => Some ([], end_of_err e)          (* if s.err != nil { return false } *)
          | None =>
              let n := lengthN pend in
              let start1 := shift cap start n in
              match grow cap start1 n with
              | None => Some ([], CEnd ScanTooLong)    (* s.setErr(ErrTooLong); return false *)
              | Some (cap2, start2) =>
                  let '(got, rd', err') := read_loop (N.to_nat (cap2 - (start2 + n))) 0 rd in
                  scan_loop fuel' cap2 start2 (pend ++ got) err' rd'
              end
          end
      end
  end.

Fixpoint total_bytes (rd : list read_result) : nat :=
  match rd with
  | [] => O
  | RChunk bs :: r => (length bs + total_bytes r)%nat
  | RErr :: r => total_bytes r
  | RLast bs _ :: r => (length bs + total_bytes r)%nat
  end.

(** every turn of the loop delivers a token (at least one byte leaves the
    buffer), or reads (at least one byte or one list element leaves the
    reader), or is the last one *)
Definition fuel_of (rd : list read_result) : nat :=
  (2 * total_bytes rd + length rd + 2)%nat.

(** [NewScanner]: [buf = nil], [start = end = 0], [err = nil] *)
Definition scan_chunks_full (rd : list read_result) : list bytes * chunk_end :=
  match scan_loop (fuel_of rd) 0 0 [] None rd with
  | Some r => r
  | None => ([], CNoProgress)      (* unreachable *)
  end.

(** The result in the vocabulary of [Model/Scanner]: the program only tells
    "the scanner reported an error that came from reading" from "token too
    long" and "end of file"; [io.ErrNoProgress] is such a reading error (it
    needs more than 100 consecutive empty reads, which a reader delivering
    non-empty chunks never produces). *)
Definition scan_chunks (rd : list read_result) : list bytes * scan_end :=
  let '(ls, e) := scan_chunks_full rd in
  (ls, match e with CEnd e' => e' | CNoProgress => ScanReadErr end).
