(** The output path: an [io.Writer] sink that accepts bytes [0,k) and fails
    from then on, [bufio.Writer] (4096-byte buffer, sticky error) in front of
    it.  Transliterated from bufio.go (Write, Flush).  Model only. *)
From HP Require Import Base.Bytes.
Open Scope nat_scope.

Record sink := { s_limit : option nat;   (* None: never fails *)
                 s_got : bytes }.        (* bytes accepted so far *)

(** one [Write] call on the sink: returns the new sink and whether it reported an error *)
Definition sink_write (s : sink) (p : bytes) : sink * bool :=
  match s_limit s with
  | None => ({| s_limit := None; s_got := s_got s ++ p |}, false)
  | Some k =>
      let room := k - length (s_got s) in
      if Nat.leb (length p) room then ({| s_limit := Some k; s_got := s_got s ++ p |}, false)
      else ({| s_limit := Some k; s_got := s_got s ++ firstn room p |}, true)
  end.

Definition buf_size : nat := 4096.

Record bw := { bw_buf : bytes; bw_err : bool; bw_sink : sink }.

Definition bw_new (s : sink) : bw := {| bw_buf := []; bw_err := false; bw_sink := s |}.

(** Flush *)
Definition bw_flush (w : bw) : bw * bool :=
  if bw_err w then (w, true)
  else match bw_buf w with
       | [] => (w, false)
       | _ =>
           let '(s', e) := sink_write (bw_sink w) (bw_buf w) in
           if e then ({| bw_buf := bw_buf w; bw_err := true; bw_sink := s' |}, true)
           else ({| bw_buf := []; bw_err := false; bw_sink := s' |}, false)
       end.

(** a write that goes straight to the sink (buffer empty, more than a buffer-full to write) *)
Definition bw_direct (w : bw) (p : bytes) : bw * bool :=
  let '(s', e) := sink_write (bw_sink w) p in
  ({| bw_buf := bw_buf w; bw_err := e; bw_sink := s' |}, e).

(** Write: the loop of bufio.Writer.Write runs at most twice *)
Definition bw_write (w : bw) (p : bytes) : bw * bool :=
  if bw_err w then (w, true)
  else
    let avail := buf_size - length (bw_buf w) in
    if Nat.leb (length p) avail then ({| bw_buf := bw_buf w ++ p; bw_err := false; bw_sink := bw_sink w |}, false)
    else match bw_buf w with
         | [] => bw_direct w p
         | _ =>
             let p1 := firstn avail p in
             let p2 := skipn avail p in
             let '(w1, e1) := bw_flush {| bw_buf := bw_buf w ++ p1; bw_err := false; bw_sink := bw_sink w |} in
             if e1 then (w1, true)
             else if Nat.leb (length p2) buf_size
                  then ({| bw_buf := p2; bw_err := false; bw_sink := bw_sink w1 |}, false)
                  else bw_direct w1 p2
         end.

(** a chunk is one [Write] call (one Fprintf / Fprintln / template execution);
    the flag says whether the Go code looks at the call's error and gives up *)
Definition chunk := (bytes * bool)%type.

(** write chunks in order; [true] = a checked write reported an error (the caller aborts) *)
Fixpoint bw_chunks (w : bw) (cs : list chunk) : bw * bool :=
  match cs with
  | [] => (w, false)
  | (p, checked) :: r =>
      let '(w', e) := bw_write w p in
      if (e && checked)%bool then (w', true) else bw_chunks w' r
  end.
