(** The part of Go's [time] package the program uses: layouts made of the
    tokens 2006 / 01 / 02 and literal separators, [time.Parse] with its range
    checks, [Format], instants in nanoseconds, fixed zone offsets.  A layout
    outside this fragment is reported as unmodelled.  Model only. *)
From HP Require Import Base.Bytes.
Open Scope Z_scope.

Inductive ltoken := Y4 | M2 | D2 | Lit (c : N).

(** literal bytes that cannot start a Go reference-time token when they occur
    between the three tokens above *)
Definition safe_literal (c : N) : bool :=
  ((c =? 47) || (c =? 45) || (c =? 46) || (c =? 32) || (c =? 58))%N.

Fixpoint tokenize_fuel (fuel : nat) (l : bytes) : option (list ltoken) :=
  match fuel with
  | O => match l with [] => Some [] | _ => None end
  | S f =>
      match l with
      | [] => Some []
      | 50%N :: 48%N :: 48%N :: 54%N :: r => option_map (cons Y4) (tokenize_fuel f r)
      | 48%N :: 49%N :: r => option_map (cons M2) (tokenize_fuel f r)
      | 48%N :: 50%N :: r => option_map (cons D2) (tokenize_fuel f r)
      | c :: r => if safe_literal c then option_map (cons (Lit c)) (tokenize_fuel f r) else None
      end
  end.

Definition count_tok (t : ltoken) (l : list ltoken) : nat :=
  length (filter (fun x => match x, t with Y4, Y4 | M2, M2 | D2, D2 => true | _, _ => false end) l).

(** a modelled layout: only the three tokens and safe literals, each token at most once,
    and no literal '-' or '.' directly before a digit token other than as separator
    (checked against the real [time] package by the correspondence) *)
Definition tokenize (layout : bytes) : option (list ltoken) :=
  match tokenize_fuel (length layout) layout with
  | Some l => if (Nat.leb (count_tok Y4 l) 1 && Nat.leb (count_tok M2 l) 1 && Nat.leb (count_tok D2 l) 1)%bool
              then Some l else None
  | None => None
  end.

Definition digit_val (c : N) : option Z := if is_digit c then Some (Z.of_N (c - 48)) else None.

Fixpoint take_digits (n : nat) (s : bytes) (acc : Z) : option (Z * bytes) :=
  match n with
  | O => Some (acc, s)
  | S k => match s with
           | c :: r => match digit_val c with Some d => take_digits k r (acc * 10 + d) | None => None end
           | [] => None
           end
  end.

Definition is_leap (y : Z) : bool := ((y mod 4 =? 0) && (negb (y mod 100 =? 0) || (y mod 400 =? 0)))%bool.

Definition days_in (y m : Z) : Z :=
  if m =? 2 then (if is_leap y then 29 else 28)
  else if (m =? 4) || (m =? 6) || (m =? 9) || (m =? 11) then 30 else 31.

Fixpoint drop_spaces (s : bytes) : bytes := match s with 32%N :: r => drop_spaces r | _ => s end.
Fixpoint drop_space_lits (l : list ltoken) : list ltoken := match l with Lit 32%N :: r => drop_space_lits r | _ => l end.

(** fields parsed so far; Go's defaults are year 0, month 1, day 1 *)
Fixpoint parse_tokens (l : list ltoken) (s : bytes) (y m d : Z) : option (Z * Z * Z) :=
  match l with
  | [] => match s with [] => Some (y, m, d) | _ => None end          (* extra text *)
  | Y4 :: r => match take_digits 4 s 0 with Some (v, s') => parse_tokens r s' v m d | None => None end
  | M2 :: r => match take_digits 2 s 0 with
               | Some (v, s') => if (1 <=? v) && (v <=? 12) then parse_tokens r s' y v d else None
               | None => None end
  | D2 :: r => match take_digits 2 s 0 with
               | Some (v, s') => if (0 <=? v) && (v <=? 31) then parse_tokens r s' y m v else None
               | None => None end
  | Lit c :: r =>
      if (c =? 32)%N then
        (* time.skip: a space in the layout stands for any run of spaces in the value, also an empty one at its end *)
        match s with
        | [] => parse_tokens (drop_space_lits r) [] y m d
        | c' :: _ => if (c' =? 32)%N then parse_tokens (drop_space_lits r) (drop_spaces s) y m d else None
        end
      else match s with c' :: s' => if (c =? c')%N then parse_tokens r s' y m d else None | [] => None end
  end.

(** [time.Parse layout s]: the civil date, or [None] for any parse error *)
Definition parse_date (toks : list ltoken) (s : bytes) : option (Z * Z * Z) :=
  match parse_tokens toks s 0 1 1 with
  | Some (y, m, d) => if (1 <=? d) && (d <=? days_in y m) then Some (y, m, d) else None
  | None => None
  end.

(** days since 1970-01-01 of a proleptic Gregorian civil date *)
Definition days_from_civil (y m d : Z) : Z :=
  let y' := if m <=? 2 then y - 1 else y in
  let era := y' / 400 in
  let yoe := y' - era * 400 in
  let mp := (m + 9) mod 12 in
  let doy := (153 * mp + 2) / 5 + d - 1 in
  let doe := yoe * 365 + yoe / 4 - yoe / 100 + doy in
  era * 146097 + doe - 719468.

Fixpoint pad_left_zero (n : nat) (s : bytes) : bytes :=
  match n with O => s | S k => if Nat.ltb (length s) n then 48%N :: pad_left_zero k s else s end.

Definition fmt_num (width : nat) (v : Z) : bytes :=
  let ds := dec_of_N (Z.to_N v) in
  brepeat [48%N] (width - length ds) ++ ds.

Definition format_date (toks : list ltoken) (civ : Z * Z * Z) : bytes :=
  let '(y, m, d) := civ in
  concat (map (fun t => match t with
                        | Y4 => fmt_num 4 y
                        | M2 => fmt_num 2 m
                        | D2 => fmt_num 2 d
                        | Lit c => [c]
                        end) toks).

(** a [time.Time]: the instant in ns since the epoch, the zone offset in seconds
    east of UTC, and the civil date in that zone (what Format prints) *)
Record time := { inst : Z; off : Z; civ : Z * Z * Z }.

Definition ns_per_day : Z := 86400000000000.
Definition ns_per_sec : Z := 1000000000.

Definition time_of_civil (c : Z * Z * Z) : time :=
  let '(y, m, d) := c in {| inst := days_from_civil y m d * ns_per_day; off := 0; civ := c |}.

(** the zero [time.Time]: 0001-01-01 00:00 UTC *)
Definition zero_time : time := time_of_civil (1, 1, 1).
Definition is_zero_time (t : time) : bool := inst t =? inst zero_time.

(** [AddDate(0,0,n)] in a fixed-offset zone: only the instant is used afterwards *)
Definition add_days (t : time) (n : Z) : time :=
  {| inst := inst t + n * ns_per_day; off := off t; civ := civ t |}.

(** [.Local()]: same instant, the process zone *)
Definition to_local (t : time) (tz : Z) : time := {| inst := inst t; off := tz; civ := civ t |}.

(** number of the calendar day the instant falls on in the time's own zone *)
Definition local_day (t : time) : Z := (inst t + off t * ns_per_sec) / ns_per_day.

(** [time.Date(y, m, d, 0,0,0,0, loc)] and [time.Date(y, m, d, 24,0,0,-1, loc)] of t's day *)
Definition day_begin (t : time) : Z := local_day t * ns_per_day - off t * ns_per_sec.
Definition day_end (t : time) : Z := day_begin t + ns_per_day - 1.

(** [int((a.Unix() - b.Unix()) / 86400)]: whole seconds since the epoch (rounded down),
    their difference divided by the seconds of a day, rounded towards zero (fix 415af33;
    before it the distance went through time.Duration and saturated at about 292 years) *)
Definition max_duration : Z := 9223372036854775807.
Definition unix_seconds (t : time) : Z := inst t / ns_per_sec.
Definition days_between (a b : time) : Z :=
  Z.quot (unix_seconds a - unix_seconds b) 86400.
