(** The part of Go's [time] package the program uses: layouts made of the
    elements 2006 / 01 / 02 / 1 / 2 / _2 / Jan / January and literal separators,
    [time.Parse] with its range checks, [Format], instants in nanoseconds, fixed
    zone offsets.  A layout outside this fragment is reported as unmodelled.
    Model only. *)
From HP Require Import Base.Bytes.
Open Scope Z_scope.

(** Go's names: Y4 stdLongYear "2006", M2 stdZeroMonth "01", D2 stdZeroDay "02",
    D1 stdDay "2", DU stdUnderDay "_2", M1 stdNumMonth "1", MonS stdMonth "Jan",
    MonL stdLongMonth "January" *)
Inductive ltoken := Y4 | M2 | D2 | D1 | DU | M1 | MonS | MonL | Lit (c : N).

(** literal bytes that cannot start a Go reference-time element when they occur
    between the elements above: / - . space : and the comma *)
Definition safe_literal (c : N) : bool :=
  ((c =? 47) || (c =? 45) || (c =? 46) || (c =? 32) || (c =? 58) || (c =? 44))%N.

(** [startsWithLowerCase] *)
Definition starts_lower (l : bytes) : bool :=
  match l with c :: _ => ((97 <=? c) && (c <=? 122))%N | [] => false end.

(** [nextStdChunk], one position at a time: the element that starts at the head of [l]
    (with its length in bytes), a safe literal, or [None] for everything else: an element
    outside the model ([15], [03]..[06], [002], [__2], [Mon], [MST], [PM], [Z07], [3], [4], [5] ...),
    [_2006] (a literal [_] and the year in Go), [Jan] followed by a lower-case letter (literal
    letters in Go), any other literal byte.  The order of the tests is the order in which
    [nextStdChunk] tries the prefixes that begin with the same byte. *)
Definition next_elem (l : bytes) : option (ltoken * nat) :=
  match l with
  | [] => None
  | c :: _ =>
      if is_prefix (b "January") l then Some (MonL, 7%nat)
      else if is_prefix (b "Jan") l then (if starts_lower (skipn 3 l) then None else Some (MonS, 3%nat))
      else if is_prefix (b "01") l then Some (M2, 2%nat)
      else if is_prefix (b "02") l then Some (D2, 2%nat)
      else if is_prefix (b "15") l then None
      else if (c =? 49)%N then Some (M1, 1%nat)
      else if is_prefix (b "2006") l then Some (Y4, 4%nat)
      else if (c =? 50)%N then Some (D1, 1%nat)
      else if is_prefix (b "_2006") l then None
      else if is_prefix (b "_2") l then Some (DU, 2%nat)
      else if safe_literal c then Some (Lit c, 1%nat) else None
  end.

Fixpoint tokenize_fuel (fuel : nat) (l : bytes) : option (list ltoken) :=
  match fuel with
  | O => match l with [] => Some [] | _ => None end
  | S f =>
      match l with
      | [] => Some []
      | _ :: _ => match next_elem l with
                  | Some (t, n) => option_map (cons t) (tokenize_fuel f (skipn n l))
                  | None => None
                  end
      end
  end.

(** the field of the date an element sets *)
Definition is_year (t : ltoken) : bool := match t with Y4 => true | _ => false end.
Definition is_month (t : ltoken) : bool := match t with M2 | M1 | MonS | MonL => true | _ => false end.
Definition is_day (t : ltoken) : bool := match t with D2 | D1 | DU => true | _ => false end.

Definition count_class (p : ltoken -> bool) (l : list ltoken) : nat := length (filter p l).

(** a modelled layout: only the eight elements and safe literals, and each field (year, month, day)
    set by at most one element, all spellings of the field counted together.  (Go itself accepts
    repetitions, the later element wins, and [parse_tokens] does the same; the guard is only caution.) *)
Definition tokenize (layout : bytes) : option (list ltoken) :=
  match tokenize_fuel (length layout) layout with
  | Some l => if (Nat.leb (count_class is_year l) 1 && Nat.leb (count_class is_month l) 1
                  && Nat.leb (count_class is_day l) 1)%bool
              then Some l else None
  | None => None
  end.

Definition digit_val (c : N) : option Z := if is_digit c then Some (Z.of_N (c - 48)) else None.

Fixpoint take_digits (n : nat) (s : bytes) (acc : Z) : option (Z * bytes) :=
  match n with
  | O => Some (acc, s)
  | S k => match s with
           | c :: r => match digit_val c with Some d => take_digits k r (acc * 10 + d) | None => None end
           | [] => None
           end
  end.

(** [getnum(s, false)]: one digit, or two when the second byte is a digit too *)
Definition get_num (s : bytes) : option (Z * bytes) :=
  match s with
  | c1 :: r1 =>
      match digit_val c1 with
      | None => None
      | Some d1 =>
          match r1 with
          | c2 :: r2 => match digit_val c2 with Some d2 => Some (d1 * 10 + d2, r2) | None => Some (d1, r1) end
          | [] => Some (d1, r1)
          end
      end
  | [] => None
  end.

(** [longMonthNames]; [shortMonthNames] and what [Format] writes for [Jan] are their first three bytes *)
Definition long_months : list bytes :=
  [b "January"; b "February"; b "March"; b "April"; b "May"; b "June";
   b "July"; b "August"; b "September"; b "October"; b "November"; b "December"].
Definition short_months : list bytes :=
  [b "Jan"; b "Feb"; b "Mar"; b "Apr"; b "May"; b "Jun"; b "Jul"; b "Aug"; b "Sep"; b "Oct"; b "Nov"; b "Dec"].

(** [Month.String] for 1..12 *)
Definition month_name (m : Z) : bytes := nth (Z.to_nat (m - 1)) long_months [].

(** one byte of [match]: equal, or equal letters after folding the case *)
Definition match_byte (c1 c2 : N) : bool :=
  ((c1 =? c2) || ((lower c1 =? lower c2) && (97 <=? lower c1) && (lower c1 <=? 122)))%N.

(** [len(val) >= len(name) && match(val[0:len(name)], name)], answering the rest of [val] *)
Fixpoint match_prefix (name val : bytes) : option bytes :=
  match name with
  | [] => Some val
  | c :: name' => match val with
                  | v :: val' => if match_byte v c then match_prefix name' val' else None
                  | [] => None
                  end
  end.

(** [lookup(tab, val)]: the first name of the table (numbered from [i]) that [val] begins with *)
Fixpoint lookup_name (tab : list bytes) (i : Z) (val : bytes) : option (Z * bytes) :=
  match tab with
  | [] => None
  | name :: tab' => match match_prefix name val with
                    | Some r => Some (i, r)
                    | None => lookup_name tab' (i + 1) val
                    end
  end.

Definition is_leap (y : Z) : bool := ((y mod 4 =? 0) && (negb (y mod 100 =? 0) || (y mod 400 =? 0)))%bool.

Definition days_in (y m : Z) : Z :=
  if m =? 2 then (if is_leap y then 29 else 28)
  else if (m =? 4) || (m =? 6) || (m =? 9) || (m =? 11) then 30 else 31.

Fixpoint drop_spaces (s : bytes) : bytes := match s with 32%N :: r => drop_spaces r | _ => s end.
Fixpoint drop_space_lits (l : list ltoken) : list ltoken := match l with Lit 32%N :: r => drop_space_lits r | _ => l end.

(** [_2] reads one optional blank before the number *)
Definition drop_one_space (s : bytes) : bytes := match s with 32%N :: r => r | _ => s end.

(** fields parsed so far; Go's defaults are year 0, month 1, day 1.  A later element of a field
    overrides an earlier one; the day is checked against the month only at the end ([parse_date]) *)
Fixpoint parse_tokens (l : list ltoken) (s : bytes) (y m d : Z) : option (Z * Z * Z) :=
  match l with
  | [] => match s with [] => Some (y, m, d) | _ => None end          (* extra text *)
  | Y4 :: r => match take_digits 4 s 0 with Some (v, s') => parse_tokens r s' v m d | None => None end
  | M2 :: r => match take_digits 2 s 0 with
               | Some (v, s') => if (1 <=? v) && (v <=? 12) then parse_tokens r s' y v d else None
               | None => None end
  | D2 :: r => match take_digits 2 s 0 with Some (v, s') => parse_tokens r s' y m v | None => None end
  | D1 :: r => match get_num s with Some (v, s') => parse_tokens r s' y m v | None => None end
  | DU :: r => match get_num (drop_one_space s) with Some (v, s') => parse_tokens r s' y m v | None => None end
  | M1 :: r => match get_num s with
               | Some (v, s') => if (1 <=? v) && (v <=? 12) then parse_tokens r s' y v d else None
               | None => None end
  | MonS :: r => match lookup_name short_months 1 s with Some (v, s') => parse_tokens r s' y v d | None => None end
  | MonL :: r => match lookup_name long_months 1 s with Some (v, s') => parse_tokens r s' y v d | None => None end
  | Lit c :: r =>
      if (c =? 32)%N then
        (* time.skip: a space in the layout stands for any run of spaces in the value, also an empty one at its end *)
        match s with
        | [] => parse_tokens (drop_space_lits r) [] y m d
        | c' :: _ => if (c' =? 32)%N then parse_tokens (drop_space_lits r) (drop_spaces s) y m d else None
        end
      else match s with c' :: s' => if (c =? c')%N then parse_tokens r s' y m d else None | [] => None end
  end.

(** [time.Parse layout s]: the civil date, or [None] for any parse error *)
Definition parse_date (toks : list ltoken) (s : bytes) : option (Z * Z * Z) :=
  match parse_tokens toks s 0 1 1 with
  | Some (y, m, d) => if (1 <=? d) && (d <=? days_in y m) then Some (y, m, d) else None
  | None => None
  end.

(** days since 1970-01-01 of a proleptic Gregorian civil date *)
Definition days_from_civil (y m d : Z) : Z :=
  let y' := if m <=? 2 then y - 1 else y in
  let era := y' / 400 in
  let yoe := y' - era * 400 in
  let mp := (m + 9) mod 12 in
  let doy := (153 * mp + 2) / 5 + d - 1 in
  let doe := yoe * 365 + yoe / 4 - yoe / 100 + doy in
  era * 146097 + doe - 719468.

Fixpoint pad_left_zero (n : nat) (s : bytes) : bytes :=
  match n with O => s | S k => if Nat.ltb (length s) n then 48%N :: pad_left_zero k s else s end.

Definition fmt_num (width : nat) (v : Z) : bytes :=
  let ds := dec_of_N (Z.to_N v) in
  brepeat [48%N] (width - length ds) ++ ds.

(** what [Format] writes for one element *)
Definition format_tok (civ : Z * Z * Z) (t : ltoken) : bytes :=
  let '(y, m, d) := civ in
  match t with
  | Y4 => fmt_num 4 y
  | M2 => fmt_num 2 m
  | D2 => fmt_num 2 d
  | D1 => fmt_num 0 d
  | DU => (if d <? 10 then [32%N] else []) ++ fmt_num 0 d
  | M1 => fmt_num 0 m
  | MonS => firstn 3 (month_name m)
  | MonL => month_name m
  | Lit c => [c]
  end.

Definition format_date (toks : list ltoken) (civ : Z * Z * Z) : bytes :=
  concat (map (format_tok civ) toks).

(** a [time.Time]: the instant in ns since the epoch, the zone offset in seconds
    east of UTC, and the civil date in that zone (what Format prints) *)
Record time := { inst : Z; off : Z; civ : Z * Z * Z }.

Definition ns_per_day : Z := 86400000000000.
Definition ns_per_sec : Z := 1000000000.

Definition time_of_civil (c : Z * Z * Z) : time :=
  let '(y, m, d) := c in {| inst := days_from_civil y m d * ns_per_day; off := 0; civ := c |}.

(** the zero [time.Time]: 0001-01-01 00:00 UTC *)
Definition zero_time : time := time_of_civil (1, 1, 1).
Definition is_zero_time (t : time) : bool := inst t =? inst zero_time.

(** [AddDate(0,0,n)] in a fixed-offset zone: only the instant is used afterwards *)
Definition add_days (t : time) (n : Z) : time :=
  {| inst := inst t + n * ns_per_day; off := off t; civ := civ t |}.

(** [.Local()]: same instant, the process zone *)
Definition to_local (t : time) (tz : Z) : time := {| inst := inst t; off := tz; civ := civ t |}.

(** number of the calendar day the instant falls on in the time's own zone *)
Definition local_day (t : time) : Z := (inst t + off t * ns_per_sec) / ns_per_day.

(** [time.Date(y, m, d, 0,0,0,0, loc)] and [time.Date(y, m, d, 24,0,0,-1, loc)] of t's day *)
Definition day_begin (t : time) : Z := local_day t * ns_per_day - off t * ns_per_sec.
Definition day_end (t : time) : Z := day_begin t + ns_per_day - 1.

(** [int((a.Unix() - b.Unix()) / 86400)]: whole seconds since the epoch (rounded down),
    their difference divided by the seconds of a day, rounded towards zero (fix 415af33;
    before it the distance went through time.Duration and saturated at about 292 years) *)
Definition max_duration : Z := 9223372036854775807.
Definition unix_seconds (t : time) : Z := inst t / ns_per_sec.
Definition days_between (a b : time) : Z :=
  Z.quot (unix_seconds a - unix_seconds b) 86400.
