(** The subset of Go's [regexp] (RE2 syntax, package regexp/syntax, flags
    [syntax.Perl]) that people type after [register -f]: a parser
    [parse_regex] that either builds an AST, reports the syntax error Go
    reports, or declines ([ReUnmodelled]: never a guess), and the boolean
    unanchored search [re_search] ([regexp.MatchString]) on the runes of a
    name, by Antimirov partial derivatives (an NFA simulation: the set of
    states is bounded by the size of the expression, so a star of a star is harmless).

    Go facts this file transliterates (go1.23.5, regexp/syntax/parse.go; each
    checked against [regexp.MatchString], see Proofs/Regex.REPORT.md):
    - the pattern must be valid UTF-8 (an invalid byte where a rune is read is
      [ErrInvalidUTF8]); the NAME is decoded rune by rune, an invalid byte being
      U+FFFD of width 1, which [.], a negated class or a literal U+FFFD match;
    - [.] is any rune but newline; a negated class [[^a]], [\D \W \S] do
      match newline (flag ClassNL); [\s] is [\t\n\f\r ] (no \v);
    - [^ \A] begin of text, [$ \z] end of text (no multi-line mode),
      [\b \B] ASCII word boundaries;
    - one repetition operator per atom ([a**], [a*+], [a{2}*], [a*??] are
      "invalid nested repetition operator"); a lazy [?] is accepted and has
      no influence on a boolean search; [{n}], [{n,}], [{n,m}] with n, m <= 1000
      and n <= m, the product of nested counts <= 1000 ([repeatIsValid]); a
      brace that is not of that form ([a{,2}], [a{01}], [a{]) is a literal;
    - [(?i)]: a literal or class range is closed under [unicode.SimpleFold];
      for ASCII that is the other case of a letter plus U+212A (Kelvin sign)
      for k/K and U+017F (long s) for s/S; [\w] gains these two as well.  A
      non-ASCII rune under [(?i)] is declined.
    Declined: [\p{..}] [\P], [[:alpha:]], flags other than a leading [(?i)] and
    [(?i:] [(?:], named groups, [\Q..\E], [\C], octal and hex escapes and
    back-references [\0-\7 \x], nesting deeper than 100, and any pattern that
    is not a plain literal and is longer than 200 bytes or heavier than 50000
    (Go's limits on height and compiled size are not modelled). *)
From HP Require Import Base.Bytes Base.Utf8.
Local Open Scope N_scope.

Definition rune := N.
Definition max_rune : N := 1114111.
(** what an invalid byte of the PATTERN decodes to (not a rune) *)
Definition bad_rune : N := 1114112.

Inductive assertion := ABeginText | AEndText | AWordB | ANoWordB.

Inductive re :=
| REmpty                                         (* the empty string *)
| RLit (c : rune)
| RAny                                           (* any rune but newline *)
| RClass (neg : bool) (rs : list (rune * rune))  (* [..] / [^..], inclusive ranges *)
| RCat (r1 r2 : re)
| RAlt (r1 r2 : re)
| RStar (r : re)
| RPlus (r : re)
| ROpt (r : re)
| RRepeat (r : re) (min : nat) (max : option nat)  (* {n,m}; [None] = {n,} *)
| RAssert (a : assertion)                        (* ^ \A  $ \z  \b  \B *)
| RGroup (r : re).                               (* ( ) *)

Inductive re_result := ReOk (r : re) | ReError | ReUnmodelled.

(** *** matching *)

Definition in_ranges (rs : list (rune * rune)) (c : rune) : bool :=
  existsb (fun lh => (fst lh <=? c) && (c <=? snd lh)) rs.

Definition class_mem (neg : bool) (rs : list (rune * rune)) (c : rune) : bool :=
  if neg then negb (in_ranges rs c) else in_ranges rs c.

Definition is_word_rune (c : rune) : bool :=
  ((48 <=? c) && (c <=? 57)) || ((65 <=? c) && (c <=? 90)) || (c =? 95) || ((97 <=? c) && (c <=? 122)).

Definition word_opt (o : option rune) : bool :=
  match o with Some c => is_word_rune c | None => false end.

(** does the empty-width assertion hold between [prev] and [next] *)
Definition assert_holds (a : assertion) (prev next : option rune) : bool :=
  match a with
  | ABeginText => match prev with None => true | Some _ => false end
  | AEndText => match next with None => true | Some _ => false end
  | AWordB => xorb (word_opt prev) (word_opt next)
  | ANoWordB => negb (xorb (word_opt prev) (word_opt next))
  end.

(** a repeat {n,m} with n > m matches nothing (the parser never builds one) *)
Definition rep_ok (mn : nat) (mx : option nat) : bool :=
  match mx with Some m => Nat.leb mn m | None => true end.

(** does [r] match the empty string at a position whose neighbours are [prev], [next] *)
Fixpoint nullable (prev next : option rune) (r : re) : bool :=
  match r with
  | REmpty => true
  | RLit _ | RAny | RClass _ _ => false
  | RCat r1 r2 => nullable prev next r1 && nullable prev next r2
  | RAlt r1 r2 => nullable prev next r1 || nullable prev next r2
  | RStar _ => true
  | RPlus r1 => nullable prev next r1
  | ROpt _ => true
  | RRepeat r1 mn mx => rep_ok mn mx && (Nat.eqb mn 0 || nullable prev next r1)
  | RAssert a => assert_holds a prev next
  | RGroup r1 => nullable prev next r1
  end.

Definition mkcat (p r2 : re) : re := match p with REmpty => r2 | _ => RCat p r2 end.

(** partial derivatives: the expressions one of which must match the rest
    after the rune [c] has been read at a position whose previous rune is [prev] *)
Fixpoint pderiv (prev : option rune) (c : rune) (r : re) : list re :=
  match r with
  | REmpty => []
  | RLit a => if a =? c then [REmpty] else []
  | RAny => if c =? 10 then [] else [REmpty]
  | RClass neg rs => if class_mem neg rs c then [REmpty] else []
  | RCat r1 r2 =>
      map (fun p => mkcat p r2) (pderiv prev c r1)
      ++ (if nullable prev (Some c) r1 then pderiv prev c r2 else [])
  | RAlt r1 r2 => pderiv prev c r1 ++ pderiv prev c r2
  | RStar r1 => map (fun p => mkcat p (RStar r1)) (pderiv prev c r1)
  | RPlus r1 => map (fun p => mkcat p (RStar r1)) (pderiv prev c r1)
  | ROpt r1 => pderiv prev c r1
  | RRepeat r1 mn mx =>
      if rep_ok mn mx then
        match mx with
        | Some O => []
        | _ =>
            (* iterations that match the empty string here may be spent here *)
            let mn' := if nullable prev (Some c) r1 then O else Nat.pred mn in
            map (fun p => mkcat p (RRepeat r1 mn' (option_map Nat.pred mx))) (pderiv prev c r1)
        end
      else []
  | RAssert _ => []
  | RGroup r1 => pderiv prev c r1
  end.

Fixpoint list_eqb {A} (eqb : A -> A -> bool) (x y : list A) : bool :=
  match x, y with
  | [], [] => true
  | a :: x', c :: y' => eqb a c && list_eqb eqb x' y'
  | _, _ => false
  end.

Definition assertion_eqb (a c : assertion) : bool :=
  match a, c with
  | ABeginText, ABeginText | AEndText, AEndText | AWordB, AWordB | ANoWordB, ANoWordB => true
  | _, _ => false
  end.

Definition optnat_eqb (x y : option nat) : bool :=
  match x, y with
  | None, None => true
  | Some a, Some c => Nat.eqb a c
  | _, _ => false
  end.

Fixpoint re_eqb (x y : re) : bool :=
  match x, y with
  | REmpty, REmpty => true
  | RLit a, RLit c => a =? c
  | RAny, RAny => true
  | RClass n1 r1, RClass n2 r2 => Bool.eqb n1 n2 && list_eqb (fun p q => (fst p =? fst q) && (snd p =? snd q)) r1 r2
  | RCat a1 a2, RCat c1 c2 => re_eqb a1 c1 && re_eqb a2 c2
  | RAlt a1 a2, RAlt c1 c2 => re_eqb a1 c1 && re_eqb a2 c2
  | RStar a, RStar c => re_eqb a c
  | RPlus a, RPlus c => re_eqb a c
  | ROpt a, ROpt c => re_eqb a c
  | RRepeat a n1 m1, RRepeat c n2 m2 => re_eqb a c && Nat.eqb n1 n2 && optnat_eqb m1 m2
  | RAssert a, RAssert c => assertion_eqb a c
  | RGroup a, RGroup c => re_eqb a c
  | _, _ => false
  end.

(** drop the elements that occur again later (keeps the set, bounds its size) *)
Fixpoint dedup (l : list re) : list re :=
  match l with
  | [] => []
  | x :: t => if existsb (re_eqb x) t then dedup t else x :: dedup t
  end.

(** [states]: what remains to be matched by the attempts begun at earlier
    positions; a new attempt ([r0]) begins at every position *)
Fixpoint search_loop (r0 : re) (states : list re) (prev : option rune) (s : list rune) : bool :=
  let st := r0 :: states in
  match s with
  | [] => existsb (nullable prev None) st
  | c :: t =>
      existsb (nullable prev (Some c)) st
      || search_loop r0 (dedup (flat_map (pderiv prev c) st)) (Some c) t
  end.

Definition re_search_runes (r : re) (s : list rune) : bool := search_loop r [] None s.

(** [regexp.MatchString] with a compiled pattern: is there a match anywhere in [name] *)
Definition re_search (r : re) (name : bytes) : bool := re_search_runes r (rune_values name).

(** the pattern is valid UTF-8 and has no U+FFFD: exactly then a search for its
    bytes in the bytes of a name is a search for its runes in the runes of the name *)
Definition valid_utf8_no_fffd (p : bytes) : bool :=
  forallb (fun r => negb (r =? rune_error)) (rune_values p).

(** *** parsing *)

Inductive pres (A : Type) := POk (a : A) | PErr | PUnm.
Arguments POk {A} a.
Arguments PErr {A}.
Arguments PUnm {A}.

Definition ch (a : ascii) : N := N_of_ascii a.

(** the runes of the pattern; an invalid byte is [bad_rune] *)
Definition pat_runes (p : bytes) : list rune :=
  map (fun rb => if (fst rb =? rune_error) && Nat.eqb (length (snd rb)) 1 then bad_rune else fst rb) (runes p).

Definition is_alnum (c : rune) : bool :=
  ((48 <=? c) && (c <=? 57)) || ((65 <=? c) && (c <=? 90)) || ((97 <=? c) && (c <=? 122)).
Definition is_upper (c : rune) : bool := (65 <=? c) && (c <=? 90).
Definition is_lower (c : rune) : bool := (97 <=? c) && (c <=? 122).

(** closure of an ASCII range under unicode.SimpleFold *)
Definition fold_range (lo hi : rune) : list (rune * rune) :=
  (lo, hi)
  :: (if (lo <=? 90) && (65 <=? hi) then [(N.max lo 65 + 32, N.min hi 90 + 32)] else [])
  ++ (if (lo <=? 122) && (97 <=? hi) then [(N.max lo 97 - 32, N.min hi 122 - 32)] else [])
  ++ (if ((lo <=? 75) && (75 <=? hi)) || ((lo <=? 107) && (107 <=? hi)) then [(8490, 8490)] else [])
  ++ (if ((lo <=? 83) && (83 <=? hi)) || ((lo <=? 115) && (115 <=? hi)) then [(383, 383)] else []).

Definition d_ranges : list (rune * rune) := [(48, 57)].
Definition s_ranges : list (rune * rune) := [(9, 10); (12, 13); (32, 32)].
Definition w_ranges (fold : bool) : list (rune * rune) :=
  [(48, 57); (65, 90); (95, 95); (97, 122)] ++ (if fold then [(383, 383); (8490, 8490)] else []).
Definition nd_ranges : list (rune * rune) := [(0, 47); (58, max_rune)].
Definition ns_ranges : list (rune * rune) := [(0, 8); (11, 11); (14, 31); (33, max_rune)].
Definition nw_ranges (fold : bool) : list (rune * rune) :=
  [(0, 47); (58, 64); (91, 94); (96, 96)]
  ++ (if fold then [(123, 382); (384, 8489); (8491, max_rune)] else [(123, max_rune)]).

(** the ranges of \d \D \s \S \w \W, [None] for another letter *)
Definition perl_class (fold : bool) (c : rune) : option (list (rune * rune)) :=
  if c =? ch "d" then Some d_ranges
  else if c =? ch "D" then Some nd_ranges
  else if c =? ch "s" then Some s_ranges
  else if c =? ch "S" then Some ns_ranges
  else if c =? ch "w" then Some (w_ranges fold)
  else if c =? ch "W" then Some (nw_ranges fold)
  else None.

(** parseEscape for the rune after the backslash: a single rune *)
Definition escape_char (c : rune) : pres rune :=
  if c =? bad_rune then PErr
  else if (c <? 128) && negb (is_alnum c) then POk c
  else if c =? ch "a" then POk 7
  else if c =? ch "f" then POk 12
  else if c =? ch "n" then POk 10
  else if c =? ch "r" then POk 13
  else if c =? ch "t" then POk 9
  else if c =? ch "v" then POk 11
  else if ((48 <=? c) && (c <=? 55)) || (c =? ch "x") then PUnm
  else PErr.

(** a literal rune as an expression *)
Definition lit_re (fold : bool) (c : rune) : pres re :=
  if c =? bad_rune then PErr
  else if fold then
    if 128 <=? c then PUnm
    else if is_upper c || is_lower c then POk (RClass false (fold_range c c))
    else POk (RLit c)
  else POk (RLit c).

(** a range of a class as ranges *)
Definition class_range (fold : bool) (lo hi : rune) : pres (list (rune * rune)) :=
  if hi <? lo then PErr
  else if fold then (if 128 <=? hi then PUnm else POk (fold_range lo hi))
  else POk [(lo, hi)].

(** one character of a class (parseClassChar): the rune and the rest *)
Definition class_char (s : list rune) : pres (rune * list rune) :=
  match s with
  | [] => PErr                                     (* missing closing ] *)
  | c :: t =>
      if c =? ch "\" then
        match t with
        | [] => PErr                               (* trailing backslash *)
        | e :: t' => match escape_char e with POk r => POk (r, t') | PErr => PErr | PUnm => PUnm end
        end
      else if c =? bad_rune then PErr
      else POk (c, t)
  end.

(** the items of a class after [[] or [[^]; [first]: a ] here is a literal *)
Fixpoint parse_class_items (fuel : nat) (fold : bool) (first : bool) (acc : list (rune * rune)) (s : list rune)
  : pres (list (rune * rune) * list rune) :=
  match fuel with
  | O => PUnm
  | S f =>
      match s with
      | [] => PErr                                 (* missing closing ] *)
      | c :: t =>
          if (c =? ch "]") && negb first then POk (acc, t)
          else if (c =? ch "[") && (match t with d :: _ => d =? ch ":" | [] => false end) then PUnm
          else if (c =? ch "\") && (match t with d :: _ => (d =? ch "p") || (d =? ch "P") | [] => false end) then PUnm
          else
            match (if c =? ch "\" then match t with d :: t' => option_map (fun rs => (rs, t')) (perl_class fold d) | [] => None end
                   else None) with
            | Some (rs, t') => parse_class_items f fold false (acc ++ rs) t'
            | None =>
                match class_char s with
                | PErr => PErr
                | PUnm => PUnm
                | POk (lo, t1) =>
                    match t1 with
                    | d :: e :: _ =>
                        if (d =? ch "-") && negb (e =? ch "]") then
                          match class_char (tl t1) with
                          | PErr => PErr
                          | PUnm => PUnm
                          | POk (hi, t2) =>
                              match class_range fold lo hi with
                              | POk rs => parse_class_items f fold false (acc ++ rs) t2
                              | PErr => PErr
                              | PUnm => PUnm
                              end
                          end
                        else
                          match class_range fold lo lo with
                          | POk rs => parse_class_items f fold false (acc ++ rs) t1
                          | PErr => PErr
                          | PUnm => PUnm
                          end
                    | _ =>
                        match class_range fold lo lo with
                        | POk rs => parse_class_items f fold false (acc ++ rs) t1
                        | PErr => PErr
                        | PUnm => PUnm
                        end
                    end
                end
            end
      end
  end.

(** after the opening bracket *)
Definition parse_class (fold : bool) (s : list rune) : pres (re * list rune) :=
  let '(neg, s1) := match s with
                    | c :: t => if c =? ch "^" then (true, t) else (false, s)
                    | [] => (false, s)
                    end in
  match parse_class_items (S (length s1)) fold true [] s1 with
  | POk (rs, rest) => POk (RClass neg rs, rest)
  | PErr => PErr
  | PUnm => PUnm
  end.

(** parseInt: digits without a leading zero; [None]: not a number here *)
Fixpoint take_digits (s : list rune) (acc : N) : N * list rune :=
  match s with
  | c :: t => if (48 <=? c) && (c <=? 57) then take_digits t (acc * 10 + (c - 48)) else (acc, s)
  | [] => (acc, [])
  end.

Definition parse_int (s : list rune) : option (N * list rune) :=
  match s with
  | c :: t =>
      if (48 <=? c) && (c <=? 57) then
        if (c =? 48) && (match t with d :: _ => (48 <=? d) && (d <=? 57) | [] => false end) then None
        else Some (take_digits s 0)
      else None
  | [] => None
  end.

Inductive rep_result := RepNone | RepBad | RepOk (mn : nat) (mx : option nat) (rest : list rune).

Definition rep_finish (mn : N) (mx : option N) (rest : list rune) : rep_result :=
  if (1000 <? mn) || (match mx with Some m => (1000 <? m) || (m <? mn) | None => false end) then RepBad
  else RepOk (N.to_nat mn) (option_map N.to_nat mx) rest.

(** parseRepeat after the opening brace *)
Definition parse_repeat (s : list rune) : rep_result :=
  match parse_int s with
  | None => RepNone
  | Some (mn, s1) =>
      match s1 with
      | [] => RepNone
      | c :: s2 =>
          if c =? ch "}" then rep_finish mn (Some mn) s2
          else if c =? ch "," then
            match s2 with
            | [] => RepNone
            | d :: s3 =>
                if d =? ch "}" then rep_finish mn None s3
                else match parse_int s2 with
                     | None => RepNone
                     | Some (mx, s4) =>
                         match s4 with
                         | e :: s5 => if e =? ch "}" then rep_finish mn (Some mx) s5 else RepNone
                         | [] => RepNone
                         end
                     end
            end
          else RepNone
      end
  end.

(** repeatIsValid *)
Fixpoint repeat_valid (r : re) (n : nat) : bool :=
  match r with
  | RRepeat r1 mn mx =>
      match mx with
      | Some O => true
      | _ =>
          let m := match mx with Some m => m | None => mn end in
          if Nat.ltb n m then false
          else repeat_valid r1 (if Nat.ltb 0 m then Nat.div n m else n)
      end
  | RCat a c | RAlt a c => repeat_valid a n && repeat_valid c n
  | RStar a | RPlus a | ROpt a | RGroup a => repeat_valid a n
  | _ => true
  end.

Definition skip_lazy (s : list rune) : list rune :=
  match s with c :: t => if c =? ch "?" then t else s | [] => [] end.

(** does another repetition operator follow (an error after a repetition) *)
Definition repeat_follows (s : list rune) : bool :=
  match s with
  | c :: t =>
      if (c =? ch "*") || (c =? ch "+") || (c =? ch "?") then true
      else if c =? ch "{" then match parse_repeat t with RepNone => false | _ => true end
      else false
  | [] => false
  end.

(** the repetition operator after an atom, if any *)
Definition parse_postfix (atom : re) (s : list rune) : pres (re * list rune) :=
  match s with
  | c :: t =>
      if (c =? ch "*") || (c =? ch "+") || (c =? ch "?") then
        let t' := skip_lazy t in
        if repeat_follows t' then PErr
        else POk ((if c =? ch "*" then RStar atom else if c =? ch "+" then RPlus atom else ROpt atom), t')
      else if c =? ch "{" then
        match parse_repeat t with
        | RepNone => POk (atom, s)
        | RepBad => PErr
        | RepOk mn mx t1 =>
            let t' := skip_lazy t1 in
            let r := RRepeat atom mn mx in
            if (Nat.leb 2 mn || match mx with Some m => Nat.leb 2 m | None => false end) && negb (repeat_valid r 1000)
            then PErr
            else if repeat_follows t' then PErr
            else POk (r, t')
        end
      else POk (atom, s)
  | [] => POk (atom, [])
  end.

Fixpoint cat_list (l : list re) : re :=
  match l with
  | [] => REmpty
  | [x] => x
  | x :: t => RCat x (cat_list t)
  end.

Fixpoint alt_list (x : re) (l : list re) : re :=
  match l with
  | [] => x
  | y :: t => RAlt x (alt_list y t)
  end.

Definition max_depth : nat := 100.

(** [parse_alt]: alternatives up to a closing parenthesis or the end (returns the
    rest, beginning with the parenthesis if any); [parse_concat]: the pieces up
    to a bar, a closing parenthesis or the end *)
Fixpoint parse_alt (fuel : nat) (fold : bool) (depth : nat) (s : list rune) : pres (re * list rune) :=
  match fuel with
  | O => PUnm
  | S f =>
      match parse_concat f fold depth s with
      | PErr => PErr
      | PUnm => PUnm
      | POk (ps, rest) =>
          match rest with
          | c :: t =>
              if c =? ch "|" then
                match parse_alt f fold depth t with
                | POk (r2, rest2) => POk (RAlt (cat_list ps) r2, rest2)
                | PErr => PErr
                | PUnm => PUnm
                end
              else POk (cat_list ps, rest)
          | [] => POk (cat_list ps, [])
          end
      end
  end
with parse_concat (fuel : nat) (fold : bool) (depth : nat) (s : list rune) : pres (list re * list rune) :=
  match fuel with
  | O => PUnm
  | S f =>
      match s with
      | [] => POk ([], [])
      | c :: t =>
          if (c =? ch "|") || (c =? ch ")") then POk ([], s)
          else
            match parse_atom f fold depth c t with
            | PErr => PErr
            | PUnm => PUnm
            | POk (atom, t1) =>
                match parse_postfix atom t1 with
                | PErr => PErr
                | PUnm => PUnm
                | POk (piece, t2) =>
                    match parse_concat f fold depth t2 with
                    | POk (ps, rest) => POk (piece :: ps, rest)
                    | PErr => PErr
                    | PUnm => PUnm
                    end
                end
            end
      end
  end
with parse_atom (fuel : nat) (fold : bool) (depth : nat) (c : rune) (t : list rune) : pres (re * list rune) :=
  match fuel with
  | O => PUnm
  | S f =>
      if (c =? ch "*") || (c =? ch "+") || (c =? ch "?") then PErr          (* missing argument *)
      else if c =? ch "{" then
        match parse_repeat t with
        | RepNone => match lit_re fold c with POk r => POk (r, t) | PErr => PErr | PUnm => PUnm end
        | _ => PErr                                                         (* bad count / missing argument *)
        end
      else if c =? ch "(" then
        if Nat.leb max_depth depth then PUnm
        else
          let group (capture : bool) (fold' : bool) (body : list rune) :=
            match parse_alt f fold' (S depth) body with
            | PErr => PErr
            | PUnm => PUnm
            | POk (r, rest) =>
                match rest with
                | d :: rest' => if d =? ch ")" then POk ((if capture then RGroup r else r), rest') else PErr
                | [] => PErr                                                (* missing closing ) *)
                end
            end in
          match t with
          | q :: t1 =>
              if q =? ch "?" then
                match t1 with
                | x :: t2 =>
                    if x =? ch ":" then group false fold t2
                    else if x =? ch "i" then
                      match t2 with
                      | y :: t3 => if y =? ch ":" then group false true t3 else PUnm
                      | [] => PUnm
                      end
                    else PUnm
                | [] => PUnm
                end
              else group true fold t
          | [] => PErr                                                      (* missing closing ) *)
          end
      else if c =? ch "[" then parse_class fold t
      else if c =? ch "." then POk (RAny, t)
      else if c =? ch "^" then POk (RAssert ABeginText, t)
      else if c =? ch "$" then POk (RAssert AEndText, t)
      else if c =? ch "\" then
        match t with
        | [] => PErr                                                        (* trailing backslash *)
        | e :: t1 =>
            if e =? ch "A" then POk (RAssert ABeginText, t1)
            else if e =? ch "z" then POk (RAssert AEndText, t1)
            else if e =? ch "b" then POk (RAssert AWordB, t1)
            else if e =? ch "B" then POk (RAssert ANoWordB, t1)
            else if (e =? ch "C") || (e =? ch "Q") || (e =? ch "p") || (e =? ch "P") then PUnm
            else
              match perl_class fold e with
              | Some rs => POk (RClass false rs, t1)
              | None =>
                  match escape_char e with
                  | POk r => match lit_re fold r with POk x => POk (x, t1) | PErr => PErr | PUnm => PUnm end
                  | PErr => PErr
                  | PUnm => PUnm
                  end
              end
        end
      else match lit_re fold c with POk r => POk (r, t) | PErr => PErr | PUnm => PUnm end
  end.

(** only literals: Go's limits cannot be reached *)
Fixpoint lit_only (r : re) : bool :=
  match r with
  | REmpty | RLit _ => true
  | RCat a c => lit_only a && lit_only c
  | _ => false
  end.

(** an upper bound of parser.calcSize *)
Fixpoint size_ub (r : re) : N :=
  match r with
  | RCat a c => size_ub a + size_ub c
  | RAlt a c => size_ub a + size_ub c + 1
  | RStar a | RGroup a => 2 + size_ub a
  | RPlus a | ROpt a => 1 + size_ub a
  | RRepeat a mn mx =>
      match mx with
      | None => 2 + (N.of_nat mn + 1) * size_ub a
      | Some m => 1 + N.of_nat m * size_ub a + N.of_nat m
      end
  | _ => 1
  end.

Definition max_pattern_bytes : nat := 200.
Definition max_weight : N := 50000.

Definition flag_i : list rune := [ch "("; ch "?"; ch "i"; ch ")"].

(** a leading [(?i)] *)
Definition split_flag (rs : list rune) : bool * list rune :=
  match rs with
  | c1 :: c2 :: c3 :: c4 :: t => if list_eqb N.eqb [c1; c2; c3; c4] flag_i then (true, t) else (false, rs)
  | _ => (false, rs)
  end.

Definition parse_regex (p : bytes) : re_result :=
  let fb := split_flag (pat_runes p) in
  match parse_alt (4 * length (snd fb) + 8) (fst fb) 0 (snd fb) with
  | PErr => ReError
  | PUnm => ReUnmodelled
  | POk (r, rest) =>
      match rest with
      | _ :: _ => ReError                                                   (* unexpected ) *)
      | [] =>
          if lit_only r || (Nat.leb (length p) max_pattern_bytes && (size_ub r <=? max_weight)) then ReOk r
          else ReUnmodelled
      end
  end.

(** does the pattern compile (in Go, and in this model) *)
Definition pattern_ok (p : bytes) : bool :=
  match parse_regex p with ReOk _ => true | _ => false end.
