(** The configuration file as text: the subset of gcfg's syntax
    (gopkg.in/gcfg.v1 v1.2.3: scanner/scanner.go, read.go, set.go,
    types/int.go) that [options.Load] reads into [Options] through
    [gcfg.ReadInto], and the two field parsers behind it
    ([time.Time.UnmarshalText] for [Now], [fmt.Sscanf "%d%s"] for [MaxDepth]).

    [parse_config] is EXACT on a conservative subset and answers
    [CfgUnmodelled] on everything else:

    - the text is cut at LF; a line is looked at on its own (this is sound
      because the only multi-line constructs of gcfg need a double quote or a
      backslash, and a line with either of them before its comment is declined);
    - blanks are space, tab and CR (gcfg's [isWhiteSpace]): CR LF line ends
      are therefore just trailing blanks;
    - a comment runs from the first [;] or [#] of the line to its end;
    - a NUL byte or an invalid UTF-8 sequence anywhere (also in a comment) is a
      scanner error: [CfgError];
    - [[ name ]]: a section header; names are compared without letter case
      ([strings.EqualFold], ASCII only here: a non-ASCII byte where an
      identifier may continue is declined);  [Global], [Resolver] (struct
      tags) and [ParserConfig], [ReporterConfig], [FilterConfig] (Go field
      names) exist, any other name is an error ("can't store data", a warning
      that [ReadInto] returns as an error);  variables of the three extra
      sections are declined;
    - [name = value]: the value is the rest of the line without the blanks at
      its ends (a CR inside it is declined);  [name] alone is an error for
      every field type of the two sections (blank value not supported);  an
      unknown name is an error;  a repeated variable: the later one wins;
    - anything else at the start of a line is an error.

    Model only; validated against the real program (Proofs/Config.REPORT.md). *)
From HP Require Import Base.Bytes Model.Dates.
Open Scope N_scope.

(** the five values the program takes from the file (Cli.cfg_entries) *)
Record cfg_fields := {
  cf_db : option bytes; cf_log : option bytes; cf_fmt : option bytes;
  cf_depth : option Z; cf_now : option time
}.

Inductive cfg_result := CfgOk (e : cfg_fields) | CfgError | CfgUnmodelled.

Definition no_fields : cfg_fields :=
  {| cf_db := None; cf_log := None; cf_fmt := None; cf_depth := None; cf_now := None |}.

(** a value, an error of the real program, or outside the modelled subset *)
Inductive tri (A : Type) := Val (a : A) | Err | Unm.
Arguments Val {A} a.
Arguments Err {A}.
Arguments Unm {A}.

(** *** characters *)
Definition cblanks : bytes := [32; 9; 13].
Definition is_letter (c : N) : bool := ((65 <=? c) && (c <=? 90)) || ((97 <=? c) && (c <=? 122)).
Definition is_ident_char (c : N) : bool := is_letter c || is_digit c || (c =? 45).
Definition is_comment_start (c : N) : bool := (c =? 59) || (c =? 35).
Definition is_quoting (c : N) : bool := (c =? 34) || (c =? 92).

(** the scanner's [next]: no NUL, and every rune decodes ([utf8.DecodeRune] does not
    answer (RuneError, 1)) *)
Definition cont (c : N) : bool := (128 <=? c) && (c <=? 191).

Fixpoint utf8_ok (s : bytes) : bool :=
  match s with
  | [] => true
  | c0 :: r0 =>
      if c0 <? 128 then negb (c0 =? 0) && utf8_ok r0
      else if (194 <=? c0) && (c0 <=? 223) then
        match r0 with
        | c1 :: r1 => cont c1 && utf8_ok r1
        | [] => false
        end
      else if (224 <=? c0) && (c0 <=? 239) then
        match r0 with
        | c1 :: c2 :: r2 =>
            ((if c0 =? 224 then 160 else 128) <=? c1) && (c1 <=? (if c0 =? 237 then 159 else 191))
            && cont c2 && utf8_ok r2
        | _ => false
        end
      else if (240 <=? c0) && (c0 <=? 244) then
        match r0 with
        | c1 :: c2 :: c3 :: r3 =>
            ((if c0 =? 240 then 144 else 128) <=? c1) && (c1 <=? (if c0 =? 244 then 143 else 191))
            && cont c2 && cont c3 && utf8_ok r3
        | _ => false
        end
      else false
  end.

(** *** one line *)
Fixpoint strip_comment (s : bytes) : bytes :=
  match s with
  | [] => []
  | c :: r => if is_comment_start c then [] else c :: strip_comment r
  end.

(** the longest prefix of identifier characters, and the rest *)
Fixpoint span_ident (s : bytes) : bytes * bytes :=
  match s with
  | c :: r => if is_ident_char c then let '(a, t) := span_ident r in (c :: a, t) else ([], s)
  | [] => ([], [])
  end.

Inductive line_kind :=
| LBlank                                        (* nothing, or only a comment *)
| LSection (name : bytes)
| LVar (name : bytes) (value : option bytes)    (* [None]: no '=' *)
| LFatal                                          (* a fatal error of gcfg *)
| LDecline.

(** after '[' *)
Definition classify_section (r : bytes) : line_kind :=
  match trim_left cblanks r with
  | [] => LFatal
  | c1 :: r1 =>
      if is_letter c1 then
        let '(name, r2) := span_ident (c1 :: r1) in
        match trim_left cblanks r2 with
        | [] => LFatal
        | c2 :: r3 =>
            if c2 =? 93 then match trim_left cblanks r3 with [] => LSection name | _ :: _ => LFatal end
            else if 128 <=? c2 then LDecline else LFatal
        end
      else if 128 <=? c1 then LDecline else LFatal
  end.

(** after the identifier that starts a line *)
Definition classify_var (name rest : bytes) : line_kind :=
  match trim_left cblanks rest with
  | [] => LVar name None
  | c :: v =>
      if c =? 61 then
        let v' := trim cblanks v in
        if memb 13 v' then LDecline else LVar name (Some v')
      else if 128 <=? c then LDecline else LFatal
  end.

Definition classify_line (l : bytes) : line_kind :=
  let pre := strip_comment l in
  if existsb is_quoting pre then LDecline
  else match trim_left cblanks pre with
       | [] => LBlank
       | c :: r =>
           if c =? 91 then classify_section r
           else if is_letter c then let '(name, rest) := span_ident (c :: r) in classify_var name rest
           else if 128 <=? c then LDecline else LFatal
       end.

(** *** the field parsers *)
Definition dig (c : N) : Z := (Z.of_N c - 48)%Z.
Definition num2 (a c : N) : Z := (dig a * 10 + dig c)%Z.
Definition dec_val (ds : bytes) : Z := fold_left (fun acc c => (acc * 10 + dig c)%Z) ds 0%Z.

Definition min_int64 : Z := (-9223372036854775808)%Z.
Definition max_int64 : Z := 9223372036854775807%Z.

(** [types.ParseInt] in mode Dec|Hex into an [int]: [fmt.Sscanf(val, "%d%s", …)] unless the
    value starts with 0x / -0x (declined, as is any value with a byte outside printable ASCII,
    space and tab): an optional sign, decimal digits, nothing after them, within int64 *)
Definition printable_or_blank (c : N) : bool := ((32 <=? c) && (c <=? 126)) || (c =? 9).

Definition parse_int (v : bytes) : tri Z :=
  let '(neg, ds) := match v with
                    | c :: r => if c =? 45 then (true, r) else if c =? 43 then (false, r) else (false, v)
                    | [] => (false, v)
                    end in
  if match ds with [] => false | _ :: _ => forallb is_digit ds end then
    let z := if neg then (- dec_val ds)%Z else dec_val ds in
    if ((min_int64 <=? z) && (z <=? max_int64))%Z then Val z else Err
  else if forallb printable_or_blank v then
    if is_prefix (b "0x") v || is_prefix (b "-0x") v then Unm else Err
  else Unm.

(** [time.Time.UnmarshalText]: exactly the strict RFC 3339 shape
    [YYYY-MM-DDTHH:MM:SS] followed by [Z] or [±HH:MM] is modelled.  A value of that shape with
    a date or clock field out of range is an error (also for the lenient [time.Parse] the
    library falls back to); a zone hour above 23 or zone minute above 59 is declined (the
    fallback accepts 24 and 60); the empty value and a value with a byte that no RFC 3339 text
    contains are errors; every other shape (fractions, one-digit hours, …) is declined. *)
Definition rfc_char (c : N) : bool :=
  is_digit c || (c =? 45) || (c =? 58) || (c =? 84) || (c =? 90) || (c =? 43) || (c =? 46) || (c =? 44).

(** [None]: not the shape; [Some None]: the shape, outside 23:59; [Some (Some o)]: seconds east *)
Definition parse_zone (z : bytes) : option (option Z) :=
  match z with
  | [c] => if c =? 90 then Some (Some 0%Z) else None
  | [sg; h1; h2; c; m1; m2] =>
      if ((sg =? 43) || (sg =? 45)) && (c =? 58) && forallb is_digit [h1; h2; m1; m2] then
        let hr := num2 h1 h2 in let mm := num2 m1 m2 in
        if ((hr <=? 23) && (mm <=? 59))%Z
        then Some (Some (if sg =? 45 then (- (hr * 3600 + mm * 60))%Z else (hr * 3600 + mm * 60)%Z))
        else Some None
      else None
  | _ => None
  end.

Definition mk_time (y m d sod o : Z) : time :=
  {| inst := (days_from_civil y m d * ns_per_day + sod * ns_per_sec - o * ns_per_sec)%Z; off := o; civ := (y, m, d) |}.

Definition parse_rfc3339 (v : bytes) : tri time :=
  match v with
  | [] => Err
  | _ :: _ =>
      if negb (forallb rfc_char v) then Err
      else match v with
           | y1 :: y2 :: y3 :: y4 :: s1 :: m1 :: m2 :: s2 :: d1 :: d2 :: t :: h1 :: h2 :: s3 :: i1 :: i2 :: s4 :: c1 :: c2 :: z =>
               if (s1 =? 45) && (s2 =? 45) && (t =? 84) && (s3 =? 58) && (s4 =? 58)
                  && forallb is_digit [y1; y2; y3; y4; m1; m2; d1; d2; h1; h2; i1; i2; c1; c2] then
                 match parse_zone z with
                 | None => Unm
                 | Some zo =>
                     let y := ((num2 y1 y2) * 100 + num2 y3 y4)%Z in
                     let m := num2 m1 m2 in let d := num2 d1 d2 in
                     let h := num2 h1 h2 in let mi := num2 i1 i2 in let s := num2 c1 c2 in
                     if ((1 <=? m) && (m <=? 12) && (1 <=? d) && (d <=? days_in y m)
                         && (h <=? 23) && (mi <=? 59) && (s <=? 59))%Z then
                       match zo with
                       | Some o => Val (mk_time y m d (h * 3600 + mi * 60 + s)%Z o)
                       | None => Unm
                       end
                     else Err
                 end
               else Unm
           | _ => Unm
           end
  end.

(** *** sections and variables *)
Inductive section := SNone | SGlobal | SResolver | SOther.

Definition lower_name (s : bytes) : bytes := map lower s.

Definition section_of (name : bytes) : option section :=
  let n := lower_name name in
  if beq n (b "global") then Some SGlobal
  else if beq n (b "resolver") then Some SResolver
  else if beq n (b "parserconfig") || beq n (b "reporterconfig") || beq n (b "filterconfig") then Some SOther
  else None.

Definition set_db (f : cfg_fields) (v : bytes) : cfg_fields :=
  {| cf_db := Some v; cf_log := cf_log f; cf_fmt := cf_fmt f; cf_depth := cf_depth f; cf_now := cf_now f |}.
Definition set_log (f : cfg_fields) (v : bytes) : cfg_fields :=
  {| cf_db := cf_db f; cf_log := Some v; cf_fmt := cf_fmt f; cf_depth := cf_depth f; cf_now := cf_now f |}.
Definition set_fmt (f : cfg_fields) (v : bytes) : cfg_fields :=
  {| cf_db := cf_db f; cf_log := cf_log f; cf_fmt := Some v; cf_depth := cf_depth f; cf_now := cf_now f |}.
Definition set_depth (f : cfg_fields) (z : Z) : cfg_fields :=
  {| cf_db := cf_db f; cf_log := cf_log f; cf_fmt := cf_fmt f; cf_depth := Some z; cf_now := cf_now f |}.
Definition set_now (f : cfg_fields) (t : time) : cfg_fields :=
  {| cf_db := cf_db f; cf_log := cf_log f; cf_fmt := cf_fmt f; cf_depth := cf_depth f; cf_now := Some t |}.

Definition tri_map {A B} (g : A -> B) (x : tri A) : tri B :=
  match x with Val a => Val (g a) | Err => Err | Unm => Unm end.

(** gcfg's [set] for a variable line in section [s] *)
Definition set_var (s : section) (name : bytes) (value : option bytes) (f : cfg_fields) : tri cfg_fields :=
  match s with
  | SNone => Err                                   (* expected section header *)
  | SOther => Unm
  | SGlobal =>
      match value with
      | None => Err                                (* blank value not supported / can't store data *)
      | Some v =>
          let n := lower_name name in
          if beq n (b "dbfilename") then Val (set_db f v)
          else if beq n (b "logfilename") then Val (set_log f v)
          else if beq n (b "dateformat") then Val (set_fmt f v)
          else if beq n (b "now") then tri_map (set_now f) (parse_rfc3339 v)
          else Err
      end
  | SResolver =>
      match value with
      | None => Err
      | Some v => if beq (lower_name name) (b "maxdepth") then tri_map (set_depth f) (parse_int v) else Err
      end
  end.

(** one line in state (section, fields) *)
Definition cfg_step (s : section) (f : cfg_fields) (l : bytes) : tri (section * cfg_fields) :=
  if negb (utf8_ok l) then Err
  else match classify_line l with
       | LBlank => Val (s, f)
       | LDecline => Unm
       | LFatal => Err
       | LSection name => match section_of name with Some s' => Val (s', f) | None => Err end
       | LVar name value => tri_map (fun f' => (s, f')) (set_var s name value f)
       end.

Fixpoint run_lines (ls : list bytes) (s : section) (f : cfg_fields) : cfg_result :=
  match ls with
  | [] => CfgOk f
  | l :: r =>
      match cfg_step s f l with
      | Val (s', f') => run_lines r s' f'
      | Err => CfgError
      | Unm => CfgUnmodelled
      end
  end.

Definition parse_config (data : bytes) : cfg_result := run_lines (split_on c_lf data) SNone no_fields.
