(** Abstract syntax of the documented file format (docs/syntax.ebnf, README):
    a file is a list of items, one per physical line; [render] produces the
    bytes for every layout variant (indentation by spaces or tabs, YAML list
    dashes, quotes, colon or not, trailing blanks, LF or CRLF, final newline or
    not).  [expect] is what the parser must report for it.  Model only. *)
From HP Require Import Base.Bytes Base.Utf8 Base.Num Model.Scanner Model.Parser.
Open Scope N_scope.

Section Syntax.
  Context (NM : Num).

  Inductive item :=
  | IBlank (ws : bytes)                                   (* only blanks / filler characters *)
  | IComment (text : bytes)                               (* '#' text *)
  | IHeading (name suffix : bytes)                        (* name, then e.g. ":" *)
  | IEntry (pre name mid lexeme post : bytes)             (* pre name mid lexeme post *)
  | INote (pre raw : bytes)                               (* pre raw, raw starts with '#' *)
  | IBadNoSep (pre text : bytes)                          (* an entry line without a blank before a value *)
  | IBadNum (pre name mid text post : bytes).             (* an entry line whose value is not a number *)

  Definition render_line (it : item) : bytes :=
    match it with
    | IBlank ws => ws
    | IComment t => c_hash :: t
    | IHeading n s => n ++ s
    | IEntry pre n mid lx post => pre ++ n ++ mid ++ lx ++ post
    | INote pre raw => pre ++ raw
    | IBadNoSep pre t => pre ++ t
    | IBadNum pre n mid t post => pre ++ n ++ mid ++ t ++ post
    end.

  (** a file: items with, for each, whether its line ends in CRLF; and whether
      the last line has a line ending at all *)
  Record file := { f_items : list (item * bool); f_final_newline : bool }.

  Definition eol (crlf : bool) : bytes := if crlf then [c_cr; c_lf] else [c_lf].

  Fixpoint render_items (l : list (item * bool)) (final_newline : bool) : bytes :=
    match l with
    | [] => []
    | [(it, crlf)] => render_line it ++ (if final_newline then eol crlf else [])
    | (it, crlf) :: r => render_line it ++ eol crlf ++ render_items r final_newline
    end.

  Definition render (f : file) : bytes := render_items (f_items f) (f_final_newline f).

  (** *** well-formedness, as boolean predicates *)
  Definition all_in (set s : bytes) : bool := forallb (fun c => memb c set) s.
  Definition none_of (set s : bytes) : bool := forallb (fun c => negb (memb c set)) s.
  Definition first_byte (s : bytes) : option N := match s with c :: _ => Some c | [] => None end.
  Definition last_byte (s : bytes) : option N := first_byte (rev s).
  Definition opt_notin (o : option N) (set : bytes) : bool := match o with Some c => negb (memb c set) | None => false end.

  Definition no_eol (s : bytes) : bool := none_of [c_lf] s && negb (match last_byte s with Some c => c =? c_cr | None => false end).

  (** a name: non-empty, free of LF, both ends outside the trim set, not starting with '#' *)
  Definition wf_name (n : bytes) : bool :=
    opt_notin (first_byte n) (c_hash :: trim_text) && opt_notin (last_byte n) (c_cr :: trim_text) && none_of [c_lf] n.

  (** the text of a value: non-empty, no blank, no LF, first byte outside the
      value trim set, last byte outside the text trim set *)
  Definition wf_value_text (l : bytes) : bool :=
    opt_notin (first_byte l) trim_qty && opt_notin (last_byte l) (c_cr :: trim_text) && none_of (c_lf :: blanks) l.

  Definition wf_lexeme (l : bytes) : bool :=
    wf_value_text l && match of_lexeme NM l with Some _ => true | None => false end.

  (** what precedes the name on an indented line: starts with a blank or a
      dash, consists of trim characters *)
  Definition wf_pre (p : bytes) : bool :=
    match p with
    | c :: _ => ((c =? c_space) || (c =? c_tab) || (c =? c_dash)) && all_in [c_tab; c_space; c_colon; c_quote; c_dash] p
    | [] => false
    end.

  (** between name and value: blanks, colons, quotes, with at least one blank *)
  Definition wf_mid (m : bytes) : bool := all_in [c_tab; c_space; c_colon; c_quote] m && existsb (fun c => memb c blanks) m.

  Definition wf_post (p : bytes) : bool := all_in [c_tab; c_space; c_colon; c_quote; c_dash] p.

  Definition wf_item (it : item) : bool :=
    match it with
    | IBlank ws => all_in [c_tab; c_space; c_colon; c_quote; c_dash] ws
    | IComment t => no_eol (c_hash :: t)
    | IHeading n s => wf_name n && wf_post s
    | IEntry pre n mid lx post => wf_pre pre && wf_name n && wf_mid mid && wf_lexeme lx && wf_post post
    | INote pre raw => wf_pre pre && match raw with c :: _ => c =? c_hash | [] => false end
                       && opt_notin (last_byte raw) (c_cr :: trim_text) && none_of [c_lf] raw
    | IBadNoSep pre t => wf_pre pre && wf_value_text t && opt_notin (first_byte t) (c_hash :: trim_text)
    | IBadNum pre n mid t post => wf_pre pre && wf_name n && wf_mid mid && wf_value_text t && wf_post post
                                  && match of_lexeme NM t with Some _ => false | None => true end
    end.

  Definition wf_file (f : file) : bool := forallb (fun ic => wf_item (fst ic)) (f_items f).

  (** *** what the parser must report: one event list for the whole file, the
      last record included; [ln] counts physical lines *)
  Definition value_of (lx : bytes) : T NM := match of_lexeme NM lx with Some v => v | None => zero NM end.

  Fixpoint expect (items : list item) (ln : N) (cur : option (pnode NM)) : list (event NM) :=
    match items with
    | [] => match cur with Some n => [ENode n] | None => [] end
    | it :: r =>
        let ln' := ln + 1 in
        match it with
        | IBlank _ | IComment _ => expect r ln' cur
        | IHeading n _ =>
            (match cur with Some c => [ENode c] | None => [] end) ++ expect r ln' (Some (new_node NM n))
        | IEntry _ n _ lx _ => expect r ln' (option_map (fun c => add_elem NM c n (value_of lx)) cur)
        | INote _ raw => expect r ln' (option_map (fun c => add_meta NM c (metadata_pair raw)) cur)
        | IBadNoSep _ _ =>
            (match cur with Some _ => [EErr (BadSyntax ln' (render_line it))] | None => [] end) ++ expect r ln' cur
        | IBadNum _ _ _ t _ =>
            (match cur with Some _ => [EErr (Conversion t ln' (render_line it))] | None => [] end) ++ expect r ln' cur
        end
    end.

  Definition expected_events (f : file) : list (event NM) := expect (map fst (f_items f)) 0 None.

  Definition is_bad (it : item) : bool := match it with IBadNoSep _ _ | IBadNum _ _ _ _ _ => true | _ => false end.
End Syntax.
