(** The command-line program: settings (options.go, root.go flag table),
    period filter (filter.go), the walk over the log (utils/hranoprovod.go),
    and every command's wiring, with the file system, the environment, the
    process time zone, map iteration orders, read faults and the failing
    output sink as explicit parameters.  Model only. *)
From HP Require Import Base.Bytes Base.Utf8 Base.Num Model.Scanner Model.Parser Model.Elements Model.Resolver
  Model.Dates Model.Tree Model.Writer Model.Reporters Model.Config.

Section Cli.
  Context (NM : Num).
  Notation T := (T NM).
  Notation elements := (elements NM).
  Notation db := (list (bytes * elements)).

  (** *** the world *)
  Record cfg_entries := {
    ce_db : option bytes; ce_log : option bytes; ce_fmt : option bytes;
    ce_depth : option Z; ce_now : option time
  }.

  Inductive fentry := FFile (data : bytes) | FDir | FConfig (e : cfg_entries).

  Record oracles := {
    o_resolve : list bytes -> list bytes;      (* range db in Resolve *)
    o_day : nat -> list bytes -> list bytes;   (* per-day range sites *)
    o_flush : list bytes -> list bytes         (* range sites in Flush / at the end of a command / TreeNode.Keys *)
  }.

  Record world := {
    w_fs : list (bytes * fentry);
    w_default_config : bytes;                  (* usr.HomeDir + "/.hranoprovod/config" *)
    w_tz : Z;                                  (* offset of the process time zone, seconds east *)
    w_clock : time;                            (* time.Now() *)
    w_or : oracles;
    w_sink : option nat;                       (* stdout fails from this offset on *)
    w_read_fault : list (bytes * nat)          (* path -> offset from which reads fail *)
  }.

  (** *** the invocation *)
  Inductive command :=
  | CReg | CBal | CLint (file : bytes) | CElementTotal (arg : bytes) | CUnresolved | CQuantity | CTotals
  | CCsvLog | CCsvDb | CCsvDbResolved | CStats | CSummary (arg : bytes) | CPrint.

  Record invocation := {
    (* settings: flag and environment *)
    i_f_db : option bytes; i_e_db : option bytes;
    i_f_log : option bytes; i_e_log : option bytes;
    i_f_fmt : option bytes; i_e_fmt : option bytes;
    i_f_depth : option Z; i_e_depth : option Z;
    i_f_today : option bytes;
    i_f_config : option bytes; i_e_config : option bytes;
    i_no_database : bool;
    (* period: global and sub-command level *)
    i_g_begin : option bytes; i_g_end : option bytes;
    i_l_begin : option bytes; i_l_end : option bytes;
    (* presentation *)
    i_g_no_color : bool; i_l_no_color : bool;
    i_single_food : bytes; i_single_element : bytes;
    i_group_food : bool; i_csv : bool; i_no_totals : bool; i_totals_only : bool;
    i_shorten : bool; i_old : bool; i_template : option bytes;
    i_collapse : bool; i_collapse_last : bool;
    i_desc : bool; i_silent : bool;
    i_cmd : command
  }.

  (** *** settings (options.Load) *)
  Definition default_db : bytes := b "food.yaml".
  Definition default_log : bytes := b "log.yaml".
  Definition default_fmt : bytes := b "2006/01/02".
  Definition default_depth : Z := 10.
  (** the null device: what --no-database makes the book (fix F24: an EMPTY name is a file that cannot be opened, like any other
      name the file system does not know; before, the empty name stood for "nothing to read", for the log as well) *)
  Definition dev_null : bytes := b "/dev/null".

  Definition first_some {A} (l : list (option A)) : option A :=
    fold_right (fun x acc => match x with Some _ => x | None => acc end) None l.

  Definition or_default {A} (o : option A) (d : A) : A := match o with Some x => x | None => d end.

  Definition is_set {A} (f e : option A) : bool := match first_some [f; e] with Some _ => true | None => false end.

  Record options := {
    op_db : bytes;               (* /dev/null = no database *)
    op_log : bytes;
    op_fmt : bytes;
    op_depth : Z;
    op_now : time;
    op_begin : option time;
    op_end : option time;
    op_rc : rconfig
  }.

  Definition lookup_fs (w : world) (p : bytes) : option fentry := lookup p (w_fs w).

  Definition no_cfg : cfg_entries := {| ce_db := None; ce_log := None; ce_fmt := None; ce_depth := None; ce_now := None |}.

  (** the five values [Config.parse_config] reads from a configuration text *)
  Definition cfg_of_fields (f : cfg_fields) : cfg_entries :=
    {| ce_db := cf_db f; ce_log := cf_log f; ce_fmt := cf_fmt f; ce_depth := cf_depth f; ce_now := cf_now f |}.

  (** gcfg.ReadInto on the bytes of a regular file (Model/Config.v) *)
  Definition read_config (data : bytes) : cerr + cfg_entries :=
    match parse_config data with
    | CfgOk f => inr (cfg_of_fields f)
    | CfgError => inl EConfigSyntax
    | CfgUnmodelled => inl (EUnmodelled (b "config file syntax"))
    end.

  (** the configuration file part of Load *)
  Definition load_config (w : world) (i : invocation) : cerr + cfg_entries :=
    let path := or_default (first_some [i_f_config i; i_e_config i]) (w_default_config w) in
    match lookup_fs w path with
    | None => if is_set (i_f_config i) (i_e_config i) then inl EConfigMissing else inr no_cfg
    | Some (FConfig e) => inr e
    | Some FDir => inl (EScan false)
    | Some (FFile data) => read_config data
    end.

  (** a string value: the flag/env pair when set, or when the file left it empty; else the file's *)
  Definition pick_string (f e c : option bytes) (dflt : bytes) : bytes :=
    match c with
    | Some (c0 :: r) => if is_set f e then or_default (first_some [f; e]) dflt else c0 :: r
    | _ => or_default (first_some [f; e]) dflt
    end.

  Definition pick_depth (f e c : option Z) : Z :=
    match c with
    | Some v => if (is_set f e || (v =? 0)%Z)%bool then or_default (first_some [f; e]) default_depth else v
    | None => or_default (first_some [f; e]) default_depth
    end.

  (** GetTimeFromString *)
  Definition time_from_string (w : world) (now : time) (toks : list ltoken) (s : bytes) : cerr + time :=
    if beq s (b "today") then inr now          (* the date as given: no conversion to the local zone (fix 4fa5d57) *)
    else if beq s (b "yesterday") then inr (add_days now (-1))
    else if beq s (b "last7") then inr (add_days now (-7))
    else if beq s (b "last30") then inr (add_days now (-30))
    else match parse_date toks s with
         | Some c => inr (time_of_civil c)
         | None => inl (EUnmodelled (b "naturaldate"))
         end.

  (** populateFilter: root first, then the sub-command, so the innermost wins *)
  Definition pick_period (w : world) (now : time) (toks : list ltoken) (g l : option bytes) : cerr + option time :=
    match g with
    | Some gs =>
        match time_from_string w now toks gs with
        | inl e => inl e
        | inr gt =>
            match l with
            | Some ls => match time_from_string w now toks ls with inl e => inl e | inr lt => inr (Some lt) end
            | None => inr (Some gt)
            end
        end
    | None =>
        match l with
        | Some ls => match time_from_string w now toks ls with inl e => inl e | inr lt => inr (Some lt) end
        | None => inr None
        end
    end.

  Definition load (w : world) (i : invocation) : cerr + options :=
    match load_config w i with
    | inl e => inl e
    | inr cfg =>
        let dbf := if i_no_database i then dev_null else pick_string (i_f_db i) (i_e_db i) (ce_db cfg) default_db in
        let logf := pick_string (i_f_log i) (i_e_log i) (ce_log cfg) default_log in
        let fmt := pick_string (i_f_fmt i) (i_e_fmt i) (ce_fmt cfg) default_fmt in
        match tokenize fmt with
        | None => inl (EUnmodelled (b "date layout"))
        | Some toks =>
            let now_r : cerr + time :=
              match i_f_today i with
              | Some s => match parse_date toks s with Some c => inr (time_of_civil c) | None => inl EBadDate end
              | None => inr (time_of_civil (civ (or_default (ce_now cfg) (w_clock w))))     (* the calendar day of the clock / of the configured Now in its own zone (fix F25) *)
              end in
            match now_r with
            | inl e => inl e
            | inr now =>
                let depth := pick_depth (i_f_depth i) (i_e_depth i) (ce_depth cfg) in
                match pick_period w now toks (i_g_begin i) (i_l_begin i) with
                | inl e => inl e
                | inr bt =>
                    match pick_period w now toks (i_g_end i) (i_l_end i) with
                    | inl e => inl e
                    | inr et =>
                        inr {| op_db := dbf; op_log := logf; op_fmt := fmt; op_depth := depth; op_now := now;
                               op_begin := bt; op_end := et;
                               op_rc := {| rc_color := negb (i_g_no_color i || i_l_no_color i);
                                           rc_totals_only := i_totals_only i;
                                           rc_totals := negb (i_no_totals i);
                                           rc_date := toks;
                                           rc_single_element := i_single_element i;
                                           rc_single_food := i_single_food i;
                                           rc_collapse_last := i_collapse_last i;
                                           rc_collapse := i_collapse i;
                                           rc_group_food := i_group_food i;
                                           rc_shorten := i_shorten i;
                                           rc_old := i_old i;
                                           rc_template := or_default (i_template i) (b "default");
                                           rc_csv := i_csv i |} |}
                    end
                end
            end
        end
    end.

  (** *** the period filter (filter.go) *)
  Definition is_good_date (t cmp : time) (beginning : bool) : bool :=
    if (inst t =? inst cmp)%Z then true
    else if beginning then (inst cmp <? inst t)%Z else (inst t <? inst cmp)%Z.

  Definition in_interval (bt et : option time) (t : time) : bool :=
    match bt with Some x => is_good_date t x true | None => true end
    && match et with Some x => is_good_date t x false | None => true end.

  (** *** files *)
  Inductive opened := OData (data : bytes) (f : read_fault) | ODir.

  Definition open_file (w : world) (p : bytes) : option opened :=
    if beq p dev_null then Some (OData [] NoFault)
    else
      match p with
      | [] => None
      | _ =>
        match lookup_fs w p with
        | None => None
        | Some FDir => Some ODir
        | Some (FFile d) => Some (OData d (match lookup p (w_read_fault w) with Some k => FailAt k | None => NoFault end))
        | Some (FConfig _) => Some (OData [] NoFault)
        end
      end.

  (** ParseStreamCallback on an opened file: a directory opens but every read fails *)
  Definition parse_opened {S} (cb : S -> event NM -> S * bool * option cerr) (o : opened) (s : S) : S * option cerr :=
    let '(s', r) :=
      match o with
      | OData d f => parse_stream NM cb d f s
      | ODir => parse_stream NM cb [] (FailAt 0) s
      end in
    (s', match r with
         | None => None
         | Some (inl e) => Some e
         | Some (inr ScanTooLong) => Some (EScan true)
         | Some (inr _) => Some (EScan false)
         end).

  (** LoadDatabaseFromStream *)
  Definition load_db (o : opened) : db * option cerr :=
    parse_opened (fun (d : db) ev =>
                    match ev with
                    | EErr e => (d, true, Some (EParse (perr_message e)))
                    | ENode n => (db_push NM d (header n) (elems n), false, None)
                    end) o [].

  (** WithResolvedDatabase up to the callback *)
  Definition resolved_db (w : world) (op : options) (o : opened) : cerr + db :=
    match load_db o with
    | (_, Some e) => inl e
    | (d, None) =>
        match resolve NM (Z.to_nat (op_depth op)) (o_resolve (w_or w)) d with
        | None => inl EMaxDepth
        | Some d' => inr d'
        end
    end.

  (** *** output *)
  Inductive status := Ok | Failed (e : cerr) | Panicked (site : bytes).
  Record outcome := { out_stdout : bytes; out_status : status }.

  Definition new_writer (w : world) : bw := bw_new {| s_limit := w_sink w; s_got := [] |}.

  Definition finish (wr : bw) (st : status) : outcome := {| out_stdout := s_got (bw_sink wr); out_status := st |}.

  (** *** the walk (WalkNodesInStream) with a reporter writing through [bw] *)
  Section Walk.
    Context (R : reporter NM) (perm_day : nat -> list bytes -> list bytes) (perm_flush : list bytes -> list bytes)
            (toks : list ltoken) (bt et : option time).

    Definition walk_state := (RS NM R * nat * bw)%type.

    Definition walk_cb (st : walk_state) (ev : event NM) : walk_state * bool * option cerr :=
      let '(rs, i, wr) := st in
      match ev with
      | EErr e => (st, true, Some (EParse (perr_message e)))
      | ENode n =>
          match parse_date toks (header n) with
          | None => (st, true, Some EBadDate)
          | Some c =>
              let t := time_of_civil c in
              if in_interval bt et t then
                let ln := {| ln_time := t; ln_elems := merge_elements NM (elems n); ln_meta := meta n |} in
                let '(rs', chunks, perr) := r_process NM R (perm_day i) rs ln in
                let '(wr', werr) := bw_chunks wr chunks in
                let e := if werr then Some EWrite else perr in
                ((rs', S i, wr'), match e with Some _ => true | None => false end, e)
              else (st, false, None)
          end
      end.

    (** the walk followed by FinishReport: flush the reporter, keep the walk's error if any *)
    Definition walk_and_finish (o : opened) (wr : bw) : bw * option cerr * RS NM R :=
      let '((rs, _, wr1), werr) := parse_opened walk_cb o (r_init NM R, O, wr) in
      let '(wr2, e2) := bw_chunks wr1 (r_flush NM R perm_flush rs) in
      let '(wr3, ferr) := if e2 then (wr2, true) else bw_flush wr2 in
      (wr3, match werr with Some e => Some e | None => if ferr then Some EWrite else None end, rs).
  End Walk.

  Definition status_of (e : option cerr) : status := match e with Some x => Failed x | None => Ok end.

  (** open the files a command needs, in order (WithFileReaders) *)
  Fixpoint open_all (w : world) (ps : list bytes) : option (list opened) :=
    match ps with
    | [] => Some []
    | p :: r => match open_file w p with
                | None => None
                | Some o => option_map (cons o) (open_all w r)
                end
    end.

  (** commands of the shape: resolve the book, walk the log with a reporter *)
  Definition run_db_log (w : world) (op : options) (mk : db -> reporter NM)
                        (bt et : option time) : outcome :=
    let wr := new_writer w in
    match open_all w [op_db op; op_log op] with
    | Some [odb; olog] =>
        match resolved_db w op odb with
        | inl e => finish wr (Failed e)
        | inr d =>
            let R := mk d in
            match tokenize (op_fmt op) with
            | None => finish wr (Failed (EUnmodelled (b "date layout")))
            | Some toks =>
                let '(wr', e, rs) := walk_and_finish R (o_day (w_or w)) (o_flush (w_or w)) toks bt et olog wr in
                match r_panic NM R rs with
                | Some site => finish wr' (Panicked site)
                | None => finish wr' (status_of e)
                end
            end
        end
    | _ => finish wr (Failed EOpen)
    end.

  (** commands that only walk the log *)
  Definition run_log (w : world) (op : options) (R : reporter NM) : outcome :=
    let wr := new_writer w in
    match open_all w [op_log op] with
    | Some [olog] =>
        match tokenize (op_fmt op) with
        | None => finish wr (Failed (EUnmodelled (b "date layout")))
        | Some toks =>
            let '(wr', e, _) := walk_and_finish R (o_day (w_or w)) (o_flush (w_or w)) toks (op_begin op) (op_end op) olog wr in
            finish wr' (status_of e)
        end
    | _ => finish wr (Failed EOpen)
    end.

  (** *** report element-total *)
  Definition element_total_list (perm : list bytes -> list bytes) (d : db) (x : bytes) : elements :=
    flat_map (fun name => match lookup name d with
                          | Some els => flat_map (fun r => if beq (fst r) x then [(name, snd r)] else []) els
                          | None => []
                          end) (sort_bytes (perm (keys d))).

  Definition run_element_total (w : world) (op : options) (x : bytes) (desc : bool) : outcome :=
    let wr := new_writer w in
    match x with
    | [] => finish wr (Failed (EUsage (b "no element name")))
    | _ =>
      match open_all w [op_db op] with
      | Some [odb] =>
          match resolved_db w op odb with
          | inl e => finish wr (Failed e)
          | inr d =>
              let l := sort_by_value NM desc (element_total_list (o_flush (w_or w)) d x) in
              if (has_nan NM l && Nat.ltb 20 (length l))%bool then finish wr (Failed (EUnmodelled (b "NaN in sort")))
              else
                let '(wr1, e1) := bw_chunks wr (map (fun nv => (f2 NM (snd nv) ++ [c_tab] ++ fst nv ++ [c_lf], true)) l) in
                let '(wr2, e2) := if e1 then (wr1, true) else bw_flush wr1 in
                finish wr2 (if e2 then Failed EWrite else Ok)
          end
      | _ => finish wr (Failed EOpen)
      end
    end.

  (** *** csv database / csv database-resolved *)
  Definition run_csv_db (w : world) (op : options) : outcome :=
    let wr := new_writer w in
    match open_all w [op_db op] with
    | Some [odb] =>
        let '(wr1, perr) :=
          parse_opened (fun (wr : bw) ev =>
                          match ev with
                          | EErr e => (wr, true, Some (EParse (perr_message e)))
                          | ENode n =>
                              let '(wr', werr) := bw_chunks wr (map (fun r => (csv_record r, true))
                                                                    (csv_db_rows NM (header n) (elems n))) in
                              (wr', werr, if werr then Some EWrite else None)
                          end) odb wr in
        let '(wr2, ferr) := bw_flush wr1 in
        finish wr2 (status_of (match perr with Some e => Some e | None => if ferr then Some EWrite else None end))
    | _ => finish wr (Failed EOpen)
    end.

  Definition run_csv_db_resolved (w : world) (op : options) : outcome :=
    let wr := new_writer w in
    match open_all w [op_db op] with
    | Some [odb] =>
        match resolved_db w op odb with
        | inl e => finish wr (Failed e)
        | inr d =>
            let rows := flat_map (fun name => match lookup name d with
                                              | Some els => csv_db_rows NM name els
                                              | None => []
                                              end) (sort_bytes (o_flush (w_or w) (keys d))) in
            let '(wr1, e1) := bw_chunks wr (map (fun r => (csv_record r, true)) rows) in
            if e1 then finish wr1 (Failed EWrite)
            else let '(wr2, e2) := bw_flush wr1 in finish wr2 (if e2 then Failed EWrite else Ok)
        end
    | _ => finish wr (Failed EOpen)
    end.

  (** *** lint: writes straight to the sink, every write checked *)
  Definition run_lint (w : world) (file : bytes) (silent : bool) : outcome :=
    let s0 := {| s_limit := w_sink w; s_got := [] |} in
    match file with
    | [] => {| out_stdout := []; out_status := Failed (EUsage (b "no file provided")) |}
    | _ =>
      match open_all w [file] with
      | Some [o] =>
          let '((s1, found), perr) :=
            parse_opened (fun (st : sink * bool) ev =>
                            match ev with
                            | EErr e =>
                                let '(s', werr) := sink_write (fst st) (perr_message e ++ [c_lf]) in
                                ((s', true), werr, if werr then Some EWrite else None)
                            | ENode _ => (st, false, None)
                            end) o (s0, false) in
          match perr with
          | Some e => {| out_stdout := s_got s1; out_status := Failed e |}
          | None =>
              if (negb found && negb silent)%bool then
                let '(s2, werr) := sink_write s1 (b "No errors found" ++ [c_lf]) in
                {| out_stdout := s_got s2; out_status := if werr then Failed EWrite else Ok |}
              else {| out_stdout := s_got s1; out_status := Ok |}
          end
      | _ => {| out_stdout := []; out_status := Failed EOpen |}
      end
    end.

  (** *** stats *)
  Definition run_stats (w : world) (op : options) : outcome :=
    let wr := new_writer w in
    let toks := rc_date (op_rc op) in
    match open_file w (op_log op) with
    | None => finish wr (Failed EOpen)
    | Some olog =>
        (* the first record is remembered with a flag of its own (fix 412404b: the zero time 0001/01/01 is a date a log may hold) *)
        let '((count_log, first_opt, last), e1) :=
          parse_opened (fun (st : nat * option time * time) ev =>
                          match ev with
                          | EErr e => (st, true, Some (EParse (perr_message e)))
                          | ENode n =>
                              let '(cnt, first, last) := st in
                              match parse_date toks (header n) with
                              | Some c =>
                                  let t := time_of_civil c in
                                  ((S cnt, match first with Some _ => first | None => Some t end, t), false, None)
                              | None => (st, true, Some EBadDate)      (* a heading that is not a date is an error here as everywhere (fix F27) *)
                              end
                          end) olog (O, None, zero_time) in
        let first := match first_opt with Some t => t | None => zero_time end in
        match e1 with
        | Some e => finish wr (Failed e)
        | None =>
            let count_db_r : cerr + nat :=
              match open_file w (op_db op) with
              | None => inl EOpen
              | Some odb =>
                  match parse_opened (fun (c : nat) ev =>
                                        match ev with
                                        | EErr e => (c, true, Some (EParse (perr_message e)))
                                        | ENode _ => (S c, false, None)
                                        end) odb O with
                  | (_, Some e) => inl e
                  | (c, None) => inr c
                  end
              end in
            match count_db_r with
            | inl e => finish wr (Failed e)
            | inr count_db =>
                let now := op_now op in
                let line (s : bytes) : chunk := (s ++ [c_lf], false) in
                let cs := [ line (b "  Database file:      " ++ op_db op);
                            line (b "  Database records:   " ++ dec_of_N (N.of_nat count_db));
                            line [];
                            line (b "  Log file:           " ++ op_log op);
                            line (b "  Log records:        " ++ dec_of_N (N.of_nat count_log));
                            line (b "  Today:              " ++ format_date toks (civ now));
                            line (b "  First record:       " ++ format_date toks (civ first) ++ b " ("
                                  ++ dec_of_Z (days_between now first) ++ b " days ago)");
                            line (b "  Last record:        " ++ format_date toks (civ last) ++ b " ("
                                  ++ dec_of_Z (days_between now last) ++ b " days ago)") ] in
                let '(wr1, _) := bw_chunks wr cs in
                let '(wr2, e2) := bw_flush wr1 in
                finish wr2 (if e2 then Failed EWrite else Ok)
            end
        end
    end.

  (** *** the program *)
  Definition run (w : world) (i : invocation) : outcome :=
    match load w i with
    | inl e => {| out_stdout := []; out_status := Failed e |}
    | inr op =>
        let c := op_rc op in
        match i_cmd i with
        | CReg => run_db_log w op (reg_reporter NM c) (op_begin op) (op_end op)
        | CBal => run_db_log w op (bal_reporter NM c) (op_begin op) (op_end op)
        | CUnresolved => run_db_log w op (rep_unresolved NM) (op_begin op) (op_end op)
        | CTotals => run_db_log w op (rep_totals NM) (op_begin op) (op_end op)
        | CSummary arg =>
            match time_from_string w (op_now op) (rc_date c) arg with
            | inl e => {| out_stdout := []; out_status := Failed e |}
            | inr t =>
                let bt := {| inst := day_begin t; off := off t; civ := civ t |} in
                let et := {| inst := day_end t; off := off t; civ := civ t |} in
                run_db_log w op (rep_summary NM c) (Some bt) (Some et)
            end
        | CQuantity => run_log w op (rep_quantity NM (i_desc i))
        | CCsvLog => run_log w op (rep_csv_log NM)
        | CPrint => run_log w op (rep_print NM c)
        | CElementTotal x => run_element_total w op x (i_desc i)
        | CCsvDb => run_csv_db w op
        | CCsvDbResolved => run_csv_db_resolved w op
        | CLint f => run_lint w f (i_silent i)
        | CStats => run_stats w op
        end
    end.
End Cli.
