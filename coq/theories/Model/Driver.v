(** Entry point of the extracted model: decodes one request (a list of
    key/value pairs, as the OCaml glue reads them from a line) into the model's
    structured inputs, runs the model at the binary64 instance and renders the
    canonical observable that the harness compares with the implementation's.
    Everything that interprets data is here, in Gallina; the OCaml side only
    splits the line and converts hexadecimal. *)
From Coq Require Import Floats.SpecFloat.
From HP Require Import Base.Bytes Base.Utf8 Base.Num Base.GoFloat Model.Scanner Model.Parser Model.Elements
  Model.Resolver Model.Dates Model.Tree Model.Writer Model.Reporters Model.Cli Model.Argv Model.Syntax Model.Csv Model.Channel.
Open Scope N_scope.

Definition kv := list (bytes * bytes).

Definition get (k : string) (l : kv) : option bytes := lookup (b k) l.
Definition has (k : string) (l : kv) : bool := match get k l with Some _ => true | None => false end.
Definition get_or (k : string) (l : kv) : bytes := match get k l with Some v => v | None => [] end.
Definition getZ (k : string) (l : kv) : option Z := match get k l with Some v => Z_of_lexeme v | None => None end.
Definition get_nat (k : string) (l : kv) : option nat := option_map Z.to_nat (getZ k l).

Definition hex_digit (n : N) : N := if n <? 10 then 48 + n else 87 + n.
Definition hex (s : bytes) : bytes := flat_map (fun c => [hex_digit (c / 16); hex_digit (c mod 16)]) s.

(** *** canonical rendering of parser events *)
Definition show_f64 (x : f64) : bytes :=
  match x with S754_nan => b "nan" | _ => dec_of_Z (bits_of x) end.

Definition show_node (n : pnode B64) : bytes :=
  b "N " ++ hex (header n) ++ b " ["
  ++ join (b ",") (map (fun nv => hex (fst nv) ++ b ":" ++ show_f64 (snd nv)) (elems n)) ++ b "] "
  ++ match meta n with
     | None => b "-"
     | Some l => b "{" ++ join (b ",") (map (fun mp => hex (fst mp) ++ b ":" ++ hex (snd mp)) l) ++ b "}"
     end.

Definition show_event (e : event B64) : bytes :=
  match e with
  | ENode n => show_node n
  | EErr e => b "E " ++ hex (perr_message e)
  end.

Definition show_scan_end (e : scan_end) : bytes :=
  match e with ScanEOF => b "eof" | ScanReadErr => b "readerr" | ScanTooLong => b "toolong" end.

(** the callback sequence seen by a callback that never stops, then the returned error *)
Definition do_parse (l : kv) : bytes :=
  let data := get_or "data" l in
  let f := match get_nat "fault" l with Some k => FailAt k | None => NoFault end in
  let '(seen, r) := parse_stream B64 (fun (acc : list (event B64)) ev => (acc ++ [ev], false, @None unit)) data f [] in
  join [c_lf] (map show_event seen ++
               [match r with
                | None => b "R ok"
                | Some (inl _) => b "R cb"
                | Some (inr e) => b "R " ++ show_scan_end e
                end]).

(** *** resolver *)
Definition perm_of (n : nat) (l : list bytes) : list bytes :=
  match n with
  | O => l
  | S O => rev l
  | _ => let k := Nat.modulo n (S (length l)) in skipn k l ++ firstn k l
  end.

Definition show_elements (els : list (bytes * f64)) : bytes :=
  join (b ",") (map (fun nv => hex (fst nv) ++ b ":" ++ show_f64 (snd nv)) els).

Definition do_resolve (l : kv) : bytes :=
  let data := get_or "data" l in
  let depth := match getZ "depth" l with Some z => Z.to_nat z | None => 10%nat end in
  let perm := perm_of (match get_nat "perm" l with Some n => n | None => O end) in
  let '(d, e) := load_db B64 (OData data NoFault) in
  match e with
  | Some _ => b "parse-error"
  | None =>
      match resolve B64 depth perm d with
      | None => b "err maxdepth"
      | Some d' =>
          b "ok" ++ [c_lf] ++
          join [c_lf] (map (fun k => match lookup k d' with
                                     | Some els => hex k ++ b " " ++ show_elements els
                                     | None => []
                                     end) (sort_bytes (keys d')))
      end
  end.

(** *** the command line *)
Definition parse_time (s : bytes) : option time :=
  match map Z_of_lexeme (split_on 44 s) with
  | [Some y; Some m; Some d; Some sod; Some o] =>
      Some {| inst := days_from_civil y m d * ns_per_day + sod * ns_per_sec - o * ns_per_sec; off := o; civ := (y, m, d) |}
  | _ => None
  end.

Definition get_time (k : string) (l : kv) : option time := match get k l with Some v => parse_time v | None => None end.

(** files: a [path] pair is followed by one of [data] / [dir] / [cfg] *)
Fixpoint collect_fs (l : kv) (cfg : cfg_entries) : list (bytes * fentry) :=
  match l with
  | (k, p) :: (((k2, v) :: _) as r) =>
      if beq k (b "path") then
        (if beq k2 (b "data") then [(p, FFile v)]
         else if beq k2 (b "dir") then [(p, FDir)]
         else if beq k2 (b "cfg") then [(p, FConfig cfg)]
         else []) ++ collect_fs r cfg
      else collect_fs r cfg
  | _ => []
  end.

Fixpoint collect_faults (l : kv) : list (bytes * nat) :=
  match l with
  | (k, p) :: (((k2, v) :: _) as r) =>
      if (beq k (b "faultpath") && beq k2 (b "faultat"))%bool
      then match Z_of_lexeme v with Some z => [(p, Z.to_nat z)] | None => [] end ++ collect_faults r
      else collect_faults r
  | _ => []
  end.

Definition decode_command (l : kv) : option command :=
  match get "cmd" l with
  | None => None
  | Some c =>
      if beq c (b "reg") then Some CReg
      else if beq c (b "bal") then Some CBal
      else if beq c (b "lint") then Some (CLint (get_or "arg" l))
      else if beq c (b "element-total") then Some (CElementTotal (get_or "arg" l))
      else if beq c (b "unresolved") then Some CUnresolved
      else if beq c (b "quantity") then Some CQuantity
      else if beq c (b "totals") then Some CTotals
      else if beq c (b "csv-log") then Some CCsvLog
      else if beq c (b "csv-db") then Some CCsvDb
      else if beq c (b "csv-db-resolved") then Some CCsvDbResolved
      else if beq c (b "stats") then Some CStats
      else if beq c (b "summary") then Some (CSummary (get_or "arg" l))
      else if beq c (b "print") then Some CPrint
      else None
  end.

Definition decode_invocation (l : kv) (c : command) : invocation := {|
  i_f_db := get "f_db" l; i_e_db := get "e_db" l;
  i_f_log := get "f_log" l; i_e_log := get "e_log" l;
  i_f_fmt := get "f_fmt" l; i_e_fmt := get "e_fmt" l;
  i_f_depth := getZ "f_depth" l; i_e_depth := getZ "e_depth" l;
  i_f_today := get "f_today" l;
  i_f_config := get "f_config" l; i_e_config := get "e_config" l;
  i_no_database := has "no_database" l;
  i_g_begin := get "g_begin" l; i_g_end := get "g_end" l;
  i_l_begin := get "l_begin" l; i_l_end := get "l_end" l;
  i_g_no_color := has "g_no_color" l; i_l_no_color := has "l_no_color" l;
  i_single_food := get_or "single_food" l; i_single_element := get_or "single_element" l;
  i_group_food := has "group_food" l; i_csv := has "csv" l;
  i_no_totals := has "no_totals" l; i_totals_only := has "totals_only" l;
  i_shorten := has "shorten" l; i_old := has "old" l; i_template := get "template" l;
  i_collapse := has "collapse" l; i_collapse_last := has "collapse_last" l;
  i_desc := has "desc" l; i_silent := has "silent" l;
  i_cmd := c
|}.

Definition decode_world (l : kv) : world :=
  let cfg := {| ce_db := get "cfg.db" l; ce_log := get "cfg.log" l; ce_fmt := get "cfg.fmt" l;
                ce_depth := getZ "cfg.depth" l; ce_now := get_time "cfg.now" l |} in
  let p := match get_nat "perm" l with Some n => n | None => O end in
  {| w_fs := collect_fs l cfg;
     w_default_config := get_or "default_config" l;
     w_tz := match getZ "tz" l with Some z => z | None => 0%Z end;
     w_clock := match get_time "clock" l with Some t => t | None => time_of_civil (2000, 1, 1)%Z end;
     w_or := {| o_resolve := perm_of p; o_day := fun i => perm_of (p + i); o_flush := perm_of p |};
     w_sink := get_nat "sink" l;
     w_read_fault := collect_faults l |}.

Definition show_cerr (e : cerr) : bytes :=
  match e with
  | EParse m => b "parse:" ++ hex m
  | EScan tl => if tl then b "toolong" else b "readerr"
  | EMaxDepth => b "maxdepth"
  | EBadDate => b "baddate"
  | EOpen => b "open"
  | ERegexp => b "regexp"
  | EUsage m => b "usage:" ++ hex m
  | EConfigMissing => b "cfgmissing"
  | EConfigSyntax => b "cfgsyntax"
  | EWrite => b "write"
  | EUnmodelled why => b "unmodelled:" ++ hex why
  end.

Definition show_outcome (o : outcome) : bytes :=
  match out_status o with
  | Ok => b "ok"
  | Failed e => b "fail:" ++ show_cerr e
  | Panicked site => b "panic:" ++ hex site
  end ++ b " " ++ hex (out_stdout o).

(** the argument vector and the environment as the program receives them (keys [a] - one per argument, in order - and
    [env.NAME]): when the request carries them, the invocation is what [Argv.parse_argv] reads from them (the flag syntax, the
    aliases, [--flag=false], the environment fall-backs, the help aliases - Model/Argv.v), not the record the harness filled in *)
Definition argv_of (l : kv) : list bytes := map snd (filter (fun p => beq (fst p) (b "a")) l).
Definition env_of (l : kv) : list (bytes * bytes) :=
  flat_map (fun p => if is_prefix (b "env.") (fst p) then [(skipn 4 (fst p), snd p)] else []) l.

Definition do_cli (l : kv) : bytes :=
  if has "argv" l then
    match parse_argv (argv_of l) (env_of l) with
    | ArgvOk i => show_outcome (run B64 (decode_world l) i)
    | ArgvHelp => b "fail:unmodelled:help "
    | ArgvUsage => b "fail:usage-cli "
    | ArgvUnmodelled => b "fail:unmodelled:argv "
    end
  else
  match decode_command l with
  | None => b "bad-request"
  | Some c => show_outcome (run B64 (decode_world l) (decode_invocation l c))
  end.

(** *** abstract files (Syntax.v): render, well-formedness, and whether the
    parser's events on the rendered bytes are the expected ones *)
Definition strip_plus (k : bytes) : bytes * bool :=
  match rev k with
  | c :: r => if c =? 43 then (rev r, true) else (k, false)
  | [] => (k, false)
  end.

Definition decode_item (k v : bytes) : option (item * bool) :=
  let '(kind, crlf) := strip_plus k in
  let fs := split_on c_lf v in
  if beq kind (b "blank") then Some (IBlank v, crlf)
  else if beq kind (b "comment") then Some (IComment v, crlf)
  else if beq kind (b "heading") then match fs with [n; s] => Some (IHeading n s, crlf) | _ => None end
  else if beq kind (b "entry") then match fs with [p; n; m; x; q] => Some (IEntry p n m x q, crlf) | _ => None end
  else if beq kind (b "note") then match fs with [p; r] => Some (INote p r, crlf) | _ => None end
  else if beq kind (b "badnosep") then match fs with [p; t] => Some (IBadNoSep p t, crlf) | _ => None end
  else if beq kind (b "badnum") then match fs with [p; n; m; x; q] => Some (IBadNum p n m x q, crlf) | _ => None end
  else None.

Fixpoint decode_items (l : kv) : list (item * bool) :=
  match l with
  | [] => []
  | (k, v) :: r => match decode_item k v with Some it => it :: decode_items r | None => decode_items r end
  end.

Definition do_syntax (l : kv) : bytes :=
  let f := {| f_items := decode_items l; f_final_newline := negb (has "nofinal" l) |} in
  let data := render f in
  let got := map show_event (events B64 data) in
  let want := map show_event (expected_events B64 f) in
  (if wf_file B64 f then b "wf" else b "notwf") ++ b " "
  ++ (if beq (join [c_lf] got) (join [c_lf] want) then b "match" else b "differ") ++ b " " ++ hex data
  ++ b " " ++ hex (join [c_lf] want).

(** *** CSV reader *)
Definition do_csv_decode (l : kv) : bytes :=
  match csv_decode (get_or "data" l) with
  | None => b "error"
  | Some rows => b "ok" ++ flat_map (fun r => [c_lf] ++ join (b ",") (map hex r)) rows
  end.

(** *** channel protocol: what each kind of consumer must observe *)
Definition show_msg (m : msg B64) : bytes :=
  match m with
  | MNode n => show_node n
  | MErr (ChParse e) => b "E " ++ hex (perr_message e)
  | MErr (ChScan e) => b "E scan:" ++ show_scan_end e
  | MErr ChIO => b "E io"
  | MDone => b "D"
  end.

Definition do_chan (l : kv) : bytes :=
  let sends :=
    if has "nofile" l then file_sends B64 None
    else stream_sends B64 (get_or "data" l) (match get_nat "fault" l with Some k => FailAt k | None => NoFault end) in
  let p := if beq (get_or "policy" l) (b "stop") then StopAtFirstError else DrainUntilDone in
  let '(seen, unsent) := run_consumer B64 p sends in
  join [c_lf] (map show_msg seen
               ++ match p with
                  | StopAtFirstError => []
                  | DrainUntilDone =>
                      (* after a drain the producer has nothing left to send and exits, unless Done never comes *)
                      match unsent, rev seen with
                      | [], MDone :: _ => [b "X exited"]
                      | [], _ => [b "T timeout"; b "X exited"]   (* ParseFile open error: no Done ever comes *)
                      | _, _ => [b "X alive"]
                      end
                  end).

Definition handle (l : kv) : bytes :=
  match get "op" l with
  | None => b "bad-request"
  | Some op =>
      if beq op (b "parse") then do_parse l
      else if beq op (b "resolve") then do_resolve l
      else if beq op (b "cli") then do_cli l
      else if beq op (b "syntax") then do_syntax l
      else if beq op (b "csvdecode") then do_csv_decode l
      else if beq op (b "chan") then do_chan l
      else b "bad-request"
  end.
