#!/bin/sh
# C14: print emits a normal form that reads back to the same log.
# A date format whose first element is Go's space-padded day ("_2", as in time.ANSIC / time.Stamp)
# makes `print` write the headings of the days 1..9 with a LEADING BLANK. A line that starts with a
# blank is an entry line for the tool's own parser, so the printed log no longer reads back to the
# same days / foods, and printing the printed log does not reproduce it.
# usage: demo.sh /path/to/hranoprovod-cli      exit 0 = property holds, 1 = violated
HR=${1:?path of the hranoprovod-cli binary}
D=$(mktemp -d) || exit 2
trap 'rm -rf "$D"' EXIT
export HOME="$D/home"; mkdir -p "$HOME"
unset HR_DATE_FORMAT HR_LOGFILE HR_DATABASE HR_CONFIG HR_MAXDEPTH
FMT='_2 Jan 2006'

cat > "$D/log.yaml" <<'EOF'
24 Jan 2021:
  pear: 2

5 Feb 2021:
  # mood: fine
  apple: 1
EOF

opts="--no-color --no-database --date-format"
# the log is readable under the format: two days
"$HR" $opts "$FMT" -l "$D/log.yaml" csv log > "$D/orig.csv" 2> "$D/orig.err" || { echo "original log is not readable?"; cat "$D/orig.err"; exit 2; }
echo "--- original log read by the tool (csv log):"; cat "$D/orig.csv"

"$HR" $opts "$FMT" -l "$D/log.yaml" print > "$D/p1.yaml" 2> "$D/p1.err" || { echo "print failed"; cat "$D/p1.err"; exit 2; }
echo "--- print output (note the heading that starts with a blank):"; cat -A "$D/p1.yaml"

"$HR" $opts "$FMT" -l "$D/p1.yaml" csv log > "$D/back.csv" 2> "$D/back.err"; st=$?
echo "--- printed log read back by the tool (status $st):"; cat "$D/back.csv" "$D/back.err"

"$HR" $opts "$FMT" -l "$D/p1.yaml" print > "$D/p2.yaml" 2> "$D/p2.err"; st2=$?

bad=0
if [ $st -ne 0 ] || ! cmp -s "$D/orig.csv" "$D/back.csv"; then
  echo "VIOLATED: the printed log does not read back to the same days and foods"; bad=1
fi
if [ $st2 -ne 0 ] || ! cmp -s "$D/p1.yaml" "$D/p2.yaml"; then
  echo "VIOLATED: printing the printed log does not reproduce it byte for byte"; diff "$D/p1.yaml" "$D/p2.yaml" | head -20; bad=1
fi
[ $bad -eq 0 ] && echo "property holds"
exit $bad
