#!/bin/bash
# C07: "stats counts equal the numbers of headings with first/last dates".
# stats ignores the error of time.Parse on a heading but keeps the zero time it returns:
# when the LAST heading of the log is not a valid date (2021/02/30, a typo, another layout)
# stats exits 0 and prints `Last record: 0001/01/01 (737799 days ago)` - a date no heading has -
# and counts the heading as a record, while every other command rejects the log.
# usage: demo.sh /path/to/hranoprovod-cli ; exit 0 = property holds, 1 = violated
BIN=${1:?path of the hranoprovod-cli binary}
BIN=$(readlink -f "$BIN")
D=$(mktemp -d); trap 'rm -rf "$D"' EXIT; cd "$D" || exit 2
export TZ=UTC
printf 'bread:\n  calories: 250\n' > food.yaml
printf '2021/01/01:\n  bread: 2\n2021/01/05:\n  bread: 1\n2021/02/30:\n  bread: 1\n' > log.yaml
HR="$BIN --no-color -c /dev/null -d food.yaml -l log.yaml --today 2021/03/01"
$HR stats > stats.txt 2> stats.err; src=$?
$HR reg > reg.txt 2> reg.err; rrc=$?
echo "--- stats (exit $src)"; cat stats.txt stats.err
echo "--- reg (exit $rrc), stderr:"; cat reg.err
last=$(awk '/Last record:/{print $3}' stats.txt)
if [ $src = 0 ] && ! grep -q "^$last:" log.yaml; then
  echo "VIOLATION: stats exits 0 and reports Last record: $last - no heading of the log has that date (the headings are 2021/01/01, 2021/01/05 and the invalid 2021/02/30, on which register fails with exit $rrc)"
  echo "expected: either the error every other command gives (parsing time \"2021/02/30\": day out of range) or the last valid heading 2021/01/05 (55 days ago)"
  exit 1
fi
echo OK; exit 0
