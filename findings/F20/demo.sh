#!/bin/sh
# C07: "stats counts equal the numbers of headings with first/last dates and day
# distances computed from --today".
# The first heading of the log is 0001/01/01 (a valid date in the default format,
# which is Go's zero time): stats reports the SECOND heading as the first record.
# usage: demo.sh /path/to/hranoprovod-cli      exit 0 = property holds, 1 = violated
HR="$1"
[ -x "$HR" ] || { echo "usage: $0 /path/to/hranoprovod-cli"; exit 2; }
T=$(mktemp -d) || exit 2
trap 'rm -rf "$T"' EXIT
export TZ=UTC
: > "$T/cfg"
printf '0001/01/01:\n  a: 1\n0001/01/03:\n  a: 2\n0001/01/05:\n  a: 3\n' > "$T/log.yaml"
echo "log headings (file order): 0001/01/01 0001/01/03 0001/01/05 ; --today 0001/01/06"
echo "--- register sees the first day:"
"$HR" -c "$T/cfg" --no-database -l "$T/log.yaml" --no-color reg -e 0001/01/01 --no-totals
echo "--- stats"
OUT=$("$HR" -c "$T/cfg" --no-database -l "$T/log.yaml" --today 0001/01/06 stats); echo "$OUT"
FIRST=$(echo "$OUT" | sed -n 's/^  First record: *//p')
WANT="0001/01/01 (5 days ago)"
if [ "$FIRST" != "$WANT" ]; then
  echo "VIOLATION: stats First record = '$FIRST', expected '$WANT'"
  exit 1
fi
echo "property holds"
exit 0
