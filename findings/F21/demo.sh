#!/bin/sh
# C07: "stats counts equal the numbers of headings with first/last dates and day
# distances computed from --today".
# A heading more than ~292 years away from --today: the distance is computed through
# time.Duration (int64 nanoseconds), which saturates at 106751 days.
# usage: demo.sh /path/to/hranoprovod-cli      exit 0 = property holds, 1 = violated
HR="$1"
[ -x "$HR" ] || { echo "usage: $0 /path/to/hranoprovod-cli"; exit 2; }
T=$(mktemp -d) || exit 2
trap 'rm -rf "$T"' EXIT
export TZ=UTC
: > "$T/cfg"
printf '1700/01/01:\n  a: 1\n2400/01/01:\n  a: 2\n' > "$T/log.yaml"
OUT=$("$HR" -c "$T/cfg" --no-database -l "$T/log.yaml" --today 2021/01/02 stats); echo "$OUT"
FIRST=$(echo "$OUT" | sed -n 's/^  First record: *//p')
LAST=$(echo "$OUT" | sed -n 's/^  Last record: *//p')
# 2021-01-02 minus 1700-01-01 = 117244 days ; 2021-01-02 minus 2400-01-01 = -138425 days
rc=0
[ "$FIRST" = "1700/01/01 (117244 days ago)" ] || { echo "VIOLATION: First record = '$FIRST', expected '1700/01/01 (117244 days ago)'"; rc=1; }
[ "$LAST" = "2400/01/01 (-138425 days ago)" ] || { echo "VIOLATION: Last record = '$LAST', expected '2400/01/01 (-138425 days ago)'"; rc=1; }
[ $rc = 0 ] && echo "property holds"
exit $rc
