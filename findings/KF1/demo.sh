#!/bin/bash
# C11 (and C05) demo: with a large, legal --maxdepth the recursive resolver overflows the Go stack
# ("fatal error: stack overflow", exit status 2) on a long chain of recipes, and WHETHER it does
# depends on the hash-map order in which Resolve() happens to visit the recipes: the same command
# on the same files sometimes succeeds and sometimes crashes.
#   part 1: acyclic chain r0 -> r1 -> ... -> rLEN, much shorter than the limit: must succeed on
#           every run; observed: some runs succeed (exit 0, full report), some crash (exit 2).
#   part 2: the chain closed into a cycle: must fail with "maximum resolution depth reached";
#           observed: crashes on every run (no recipe of the ring is ever finished, so the first
#           visit always recurses once around the ring).
# Needs about 2 GB of RAM, 120 MB under $TMPDIR, and 1-2 minutes.
# usage: demo.sh /path/to/hranoprovod-cli     exit 0 = property holds, exit 1 = violated
set -u
HR=${1:?path of the hranoprovod-cli binary}
D=$(mktemp -d)
trap 'rm -rf "$D"' EXIT
export HOME=$D
unset HR_DATABASE HR_LOGFILE HR_CONFIG HR_DATE_FORMAT HR_MAXDEPTH
: > "$D/config"
LEN=${LEN:-5000000}          # references in the chain (r$LEN is a basic element)
N=1000000000                 # depth limit, far above the length of the chain
RUNS=${RUNS:-8}

awk -v n="$LEN" 'BEGIN{for(i=0;i<n;i++) printf "r%d:\n  r%d: 1\n", i, i+1}' > "$D/chain.yaml"
run() { "$HR" -c "$D/config" --maxdepth $N -d "$1" csv database-resolved > "$D/out" 2> "$D/err"; }

echo "== part 1: acyclic chain of $LEN references, --maxdepth $N; the same command up to $RUNS times"
ok=0; crash=0; other=0
for i in $(seq 1 "$RUNS"); do
  run "$D/chain.yaml"; rc=$?
  if [ $rc -eq 0 ] && [ "$(grep -c "^r0,r$LEN,1.00\$" "$D/out")" = 1 ]; then
    ok=$((ok+1)); echo "  run $i: exit 0, $(wc -l < "$D/out") csv rows, r0 resolved to r$LEN"
  elif grep -q 'stack overflow' "$D/err"; then
    crash=$((crash+1)); echo "  run $i: exit $rc, $(wc -c < "$D/out") bytes of report, stderr: $(grep -m1 'fatal error' "$D/err")"
  else
    other=$((other+1)); echo "  run $i: exit $rc, stderr: $(head -1 "$D/err" | cut -c1-120)"
  fi
  if [ $ok -gt 0 ] && [ $((crash+other)) -gt 0 ]; then break; fi
done
echo "  => $ok successful run(s), $crash crash(es), $other other failure(s)"

echo "== part 2: the chain closed into a cycle (r$LEN -> r0), --maxdepth $N"
printf 'r%d:\n  r0: 1\n' "$LEN" >> "$D/chain.yaml"
run "$D/chain.yaml"; rc2=$?
echo "  exit $rc2, stderr starts with:"; head -3 "$D/err" | cut -c1-120 | sed 's/^/      /'
deptherr=$(grep -c 'maximum resolution depth reached' "$D/err")

echo "== control: chain of 1000 references, --maxdepth $N"
awk 'BEGIN{for(i=0;i<1000;i++) printf "r%d:\n  r%d: 1\n", i, i+1}' > "$D/short.yaml"
run "$D/short.yaml"; echo "  exit $?, rows 'r0,r1000,1.00': $(grep -c '^r0,r1000,1.00$' "$D/out")"

bad=0
if [ $((crash+other)) -gt 0 ]; then
  echo "VIOLATION (C11): an acyclic chain shorter than the depth limit did not resolve (runtime crash)"; bad=1
fi
if [ $ok -gt 0 ] && [ $((crash+other)) -gt 0 ]; then
  echo "VIOLATION (C11 'same on every run', C05 'same success or failure on every run'): identical invocations both succeeded and failed"; bad=1
fi
if [ "$deptherr" = 0 ]; then
  echo "VIOLATION (C11): a cyclic book did not fail with the maximum-depth error (runtime crash instead)"; bad=1
fi
if [ $bad -eq 0 ]; then echo "OK: every run succeeded on the chain and reported the maximum-depth error on the cycle"; fi
exit $bad
