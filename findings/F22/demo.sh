#!/bin/sh
# C02: "the register shows every selected day ... each distinct food once ... followed by
# that quantity times each resolved element ... The day's totals list every contributed
# element once".
# Boolean options given with an explicit value false (`--totals-only=false`,
# `--no-totals=false`: regular urfave/cli syntax, e.g. produced by wrapper scripts) are
# treated as if they were true, because the code asks IsSet() instead of the value.
# usage: demo.sh /path/to/hranoprovod-cli      exit 0 = property holds, 1 = violated
HR="$1"
[ -x "$HR" ] || { echo "usage: $0 /path/to/hranoprovod-cli"; exit 2; }
T=$(mktemp -d) || exit 2
trap 'rm -rf "$T"' EXIT
export TZ=UTC
: > "$T/cfg"
printf 'bread:\n  cal: 250\n  fat: 3\n' > "$T/food.yaml"
printf '2021/01/24:\n  bread: 2\n  water: 1\n' > "$T/log.yaml"
run() { "$HR" -c "$T/cfg" -d "$T/food.yaml" -l "$T/log.yaml" --no-color "$@"; }
REF=$(run reg)
echo "--- reg"; echo "$REF"
rc=0
for opt in --totals-only=false --no-totals=false; do
  OUT=$(run reg $opt)
  echo "--- reg $opt"; echo "$OUT"
  if [ "$OUT" != "$REF" ]; then
    echo "VIOLATION: 'reg $opt' differs from 'reg': part of the day's report is missing"
    rc=1
  fi
done
[ $rc = 0 ] && echo "property holds"
exit $rc
