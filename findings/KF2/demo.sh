#!/bin/sh
# C15: "a shortened name keeps a prefix and suffix of the original within the column width".
# reg --shorten rewrites every byte of a long name that is not valid UTF-8 (e.g. a Latin-1
# 'e acute' = 0xE9) into U+FFFD (EF BF BD); without --shorten, and for short names, the bytes
# are passed through untouched.
# usage: demo.sh /path/to/hranoprovod-cli      exit 0 = property holds, 1 = violated
HR=${1:?path of the hranoprovod-cli binary}
LC_ALL=C; export LC_ALL
T=$(mktemp -d) || exit 2
trap 'rm -rf "$T"' EXIT
export HOME="$T"
ELL=$(printf '\342\200\246')                                  # the omission mark U+2026
N1=$(printf 'caf\351/au-lait/grande/avec-sucre/100g')          # Latin-1 file: 0xE9, 38 characters
N2=$(printf 'caf\350/au-lait/grande/avec-sucre/100g')          # differs from N1 in byte 4 only (0xE8)
printf '2021/01/01:\n  %s: 1\n2021/01/02:\n  %s: 2\n' "$N1" "$N2" > "$T/log.yaml"

"$HR" --no-database -l "$T/log.yaml" --no-color reg --no-totals            > "$T/long.out"  || exit 2
"$HR" --no-database -l "$T/log.yaml" --no-color reg --no-totals --shorten  > "$T/short.out" || exit 2

# the unshortened report carries the names byte for byte
grep -qF "$N1" "$T/long.out" && grep -qF "$N2" "$T/long.out" || { echo "unexpected: plain report does not contain the names"; exit 2; }

name_of_line() { sed -n "$1"'{s/^	//;s/ *:[^:]*$//;p;}' "$2"; }
rc=0
i=0
for orig in "$N1" "$N2"; do
  i=$((i+1))
  short=$(name_of_line $((i*3-1)) "$T/short.out")      # lines 2 and 5: the food rows of the two days
  P=${short%%"$ELL"*}; S=${short#*"$ELL"}
  printf 'original  : %s\n' "$orig"  | od -An -c | sed 's/^/   /'
  printf 'shortened : %s\n' "$short" | od -An -c | sed 's/^/   /'
  case "$short" in *"$ELL"*) ;; *) echo "unexpected: name was not shortened"; exit 2;; esac
  case "$orig" in
    "$P"*"$S") echo "ok: '$P' + ... + '$S' are a prefix and a suffix of the original" ;;
    *) echo "VIOLATION: the part before the omission mark is not a prefix of the original name (bytes 0x$(printf '%s' "$orig" | od -An -tx1 -j3 -N1 | tr -d ' ') became ef bf bd)"; rc=1 ;;
  esac
done
s1=$(name_of_line 2 "$T/short.out"); s2=$(name_of_line 5 "$T/short.out")
if [ "$s1" = "$s2" ]; then
  echo "VIOLATION: two different foods (they differ inside the kept prefix) are shown under the same shortened name"
  rc=1
fi
[ $rc = 0 ] && echo "property holds"
exit $rc
