#!/bin/bash
# C05 demo: a relative --begin date ("1 minute ago") is resolved against the wall clock
# (time.Now()) although --today is given, so the SAME command on the SAME files, flags,
# environment and --today date prints different bytes when it is simply run again later.
# usage: demo.sh /path/to/hranoprovod-cli     exit 0 = property holds, exit 1 = violated
set -u
HR=${1:?path of the hranoprovod-cli binary}
D=$(mktemp -d)
trap 'rm -rf "$D"' EXIT
export HOME=$D TZ=UTC
unset HR_DATABASE HR_LOGFILE HR_CONFIG HR_DATE_FORMAT HR_MAXDEPTH
: > "$D/config"                       # empty configuration file: nothing comes from ~/.hranoprovod

FMT='2006/01/02 15:04:05'             # a Go layout with seconds (any layout is allowed by --date-format)
now=$(date -u +%s)
# one log entry per second from 75 s ago to 45 s ago
for i in $(seq -75 -45); do
  printf '%s:\n  apple: 1\n\n' "$(date -u -d @$((now+i)) '+%Y/%m/%d %H:%M:%S')"
done > "$D/log.yaml"

run() {
  "$HR" -c "$D/config" --today '2021/01/25 00:00:00' --date-format "$FMT" \
        --no-database -l "$D/log.yaml" print -b '1 minute ago'
}
run > "$D/out1" 2> "$D/err1"; rc1=$?
sleep 4
run > "$D/out2" 2> "$D/err2"; rc2=$?

n1=$(grep -c apple "$D/out1"); n2=$(grep -c apple "$D/out2")
echo "run 1: exit $rc1, $n1 log entries printed, first: $(head -1 "$D/out1")"
echo "run 2: exit $rc2, $n2 log entries printed, first: $(head -1 "$D/out2")   (same command, 4 s later)"

# the day-granularity face of the same defect (informational): with --today 2021/01/25,
# '-b "1 day ago"' ought to start at 2021/01/24; the program starts at (real today - 1 day)
printf '2021/01/24:\n  a: 1\n2021/01/25:\n  b: 1\n' > "$D/log2.yaml"
echo "default date format, --today 2021/01/25, print -b '1 day ago' prints:"
"$HR" -c "$D/config" --today 2021/01/25 --no-database -l "$D/log2.yaml" print -b '1 day ago' | sed 's/^/    /'
echo "    (if nothing is printed above, both 2021 entries were filtered out: 'ago' was counted from the wall clock, not from --today)"

if cmp -s "$D/out1" "$D/out2" && [ "$rc1" = "$rc2" ]; then
  echo "OK: byte-identical output on both runs"
  exit 0
fi
echo "VIOLATION (C05): same files, flags, environment and --today, yet the output differs between two runs"
exit 1
