#!/bin/bash
# C07: "stats counts equal the numbers of headings with first/last dates and day distances
#       computed from --today".
# The current date can also come from the configuration file (documented: [Global] Now=RFC3339,
# e.g. Now=2020-01-01T01:00:00Z) or from the clock (time.Now().Local()). stats then prints
# `Today: D` but counts the days from the INSTANT Now (with its time of day and zone) to the
# UTC midnight of the heading: a record dated D itself is "1 days ago", tomorrow is "0 days ago".
# usage: demo.sh /path/to/hranoprovod-cli ; exit 0 = property holds, 1 = violated
BIN=${1:?path of the hranoprovod-cli binary}
BIN=$(readlink -f "$BIN")
D=$(mktemp -d); trap 'rm -rf "$D"' EXIT; cd "$D" || exit 2
export TZ=UTC
printf 'bread:\n  calories: 250\n' > food.yaml
printf '2020/01/01:\n  bread: 1\n2020/01/02:\n  bread: 1\n' > log.yaml
rc=0
# reference: the same current date given with --today
$BIN --no-color -c /dev/null -d food.yaml -l log.yaml --today 2020/01/01 stats > ref.txt || exit 2
echo "--- --today 2020/01/01 stats"; tail -3 ref.txt
for now in 2020-01-01T23:00:00-05:00 2020-01-01T01:00:00Z; do
  printf '[Global]\nNow=%s\n' "$now" > cfg
  $BIN --no-color -c cfg -d food.yaml -l log.yaml stats > out.txt || exit 2
  echo "--- config Now=$now, stats"; tail -3 out.txt
  if ! diff <(tail -3 ref.txt) <(tail -3 out.txt) > /dev/null; then
    echo "VIOLATION: with Now=$now stats prints the same Today (2020/01/01) but other day distances than with --today 2020/01/01"
    rc=1
  fi
done
if [ $rc = 1 ]; then
  echo "expected: Today 2020/01/01 -> 'First record: 2020/01/01 (0 days ago)', 'Last record: 2020/01/02 (-1 days ago)' whatever the time of day / zone of the current instant"
else echo OK; fi
exit $rc
