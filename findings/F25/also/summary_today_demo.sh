#!/bin/bash
# C07: "the summary equals the register for that day" (and: for every ... period, figures
# that several reports derive from the same data agree).
# `summary today` builds the day [00:00, 24:00) in the ZONE of the current instant, while the
# headings of the log are UTC midnights. With --today the instant is UTC and all is well; with
# the default current date (time.Now().Local()) or the documented configuration entry
# `Now=<RFC3339 with an offset>` in a zone west of UTC, the window of day D runs from D 0h+offset
# to D+1 0h+offset UTC: it misses the heading D and catches the heading D+1.
# So `summary today` prints TOMORROW's records and never today's.
# usage: demo.sh /path/to/hranoprovod-cli ; exit 0 = property holds, 1 = violated
BIN=${1:?path of the hranoprovod-cli binary}
BIN=$(readlink -f "$BIN")
D=$(mktemp -d); trap 'rm -rf "$D"' EXIT; cd "$D" || exit 2
printf 'bread:\n  calories: 250\n' > food.yaml
rc=0

echo "=== 1. configuration file Now=2020-01-01T23:00:00-05:00 (11 pm on Jan 1st in New York)"
export TZ=UTC
printf '[Global]\nNow=2020-01-01T23:00:00-05:00\n' > cfg
printf '2019/12/31:\n  bread: 1\n2020/01/01:\n  bread: 2\n2020/01/02:\n  bread: 3\n' > log.yaml
HR="$BIN --no-color -c cfg -d food.yaml -l log.yaml"
$HR stats | grep Today
$HR summary today > sum.txt || exit 2
$HR -b 2020/01/01 -e 2020/01/01 reg > reg.txt || exit 2
echo "--- summary today"; cat sum.txt
echo "--- -b 2020/01/01 -e 2020/01/01 reg"; cat reg.txt
if [ "$(head -1 sum.txt)" != "2020/01/01 :" ] || ! grep -q '500.00 : calories' sum.txt; then
  echo "VIOLATION: today is 2020/01/01 (see the Today line of stats); summary today shows '$(head -1 sum.txt)' instead of the records of 2020/01/01 that the register prints (calories 500.00)"
  rc=1
fi

echo "=== 2. no configuration, wall clock, TZ=Etc/GMT+12 (UTC-12; every zone west of UTC behaves so, e.g. America/New_York)"
export TZ=Etc/GMT+12
T=$(date +%Y/%m/%d); Y=$(date -d yesterday +%Y/%m/%d); M=$(date -d tomorrow +%Y/%m/%d)
printf '%s:\n  bread: 1\n%s:\n  bread: 2\n%s:\n  bread: 3\n' "$Y" "$T" "$M" > log.yaml
HR="$BIN --no-color -c /dev/null -d food.yaml -l log.yaml"
$HR stats | grep Today
$HR summary today > sum.txt || exit 2
$HR -b "$T" -e "$T" reg > reg.txt || exit 2
echo "--- summary today   (local date: $T)"; cat sum.txt
echo "--- -b $T -e $T reg"; cat reg.txt
if [ "$(head -1 sum.txt)" != "$T :" ] || ! grep -q '500.00 : calories' sum.txt; then
  echo "VIOLATION: today is $T; summary today shows '$(head -1 sum.txt)' instead of the records of $T that the register prints (calories 500.00)"
  rc=1
fi
[ $rc = 0 ] && echo OK || echo "expected: summary today = the summary of the heading whose date is today's date, the same day the register shows for -b today's-date -e today's-date"
exit $rc
