#!/bin/bash
# C06: the "current date" is kept as an instant (wall-clock time of day in the
# local zone, or the time of day / offset written in the configuration file's
# Now=) instead of a calendar day, so the keywords today / yesterday / last7 /
# last30 and `summary today` select the wrong days whenever --today is absent.
# usage: demo.sh /path/to/hranoprovod-cli     exit 0 = property holds, 1 = violated
HR=$(readlink -f "$1")
T=$(mktemp -d); trap 'rm -rf "$T"' EXIT
cd "$T" || exit 2
export HOME="$T"
unset HR_DATABASE HR_LOGFILE HR_CONFIG HR_DATE_FORMAT HR_MAXDEPTH
: > empty.cfg
fail=0

check() { # label expected-file observed-file
  if cmp -s "$2" "$3"; then echo "ok:   $1"; else
    fail=1; echo "FAIL: $1"; echo "  expected (same file with the other days deleted, no period):"; sed 's/^/    /' "$2"
    echo "  observed:"; sed 's/^/    /' "$3"; fi
}

# ---- 1. current date from the configuration file (the example of docs/configuration-file.md)
printf '[Global]\nNow=2020-01-01T01:00:00Z\n' > now.cfg
printf '2019/12/31:\n  a: 1\n2020/01/01:\n  b: 2\n2020/01/02:\n  c: 3\n' > log3.yaml
printf '2020/01/01:\n  b: 2\n' > only.yaml
printf '2020/01/01:\n  b: 2\n2020/01/02:\n  c: 3\n' > from.yaml
for cmd in "print" "reg --no-color" "bal" "csv log"; do
  TZ=UTC "$HR" -c empty.cfg --no-database -l only.yaml $cmd > exp.txt 2>&1
  TZ=UTC "$HR" -c now.cfg   --no-database -l log3.yaml $cmd -b today -e today > obs.txt 2>&1
  check "config Now=2020-01-01T01:00:00Z: '$cmd -b today -e today' shows 2020/01/01" exp.txt obs.txt
done
TZ=UTC "$HR" -c empty.cfg --no-database -l from.yaml print > exp.txt 2>&1
TZ=UTC "$HR" -c now.cfg   --no-database -l log3.yaml -b today print > obs.txt 2>&1
check "config Now=2020-01-01T01:00:00Z: global '-b today' begins with 2020/01/01 (inclusive)" exp.txt obs.txt
# the same calendar day written with an offset: summary today
printf '[Global]\nNow=2020-01-01T12:00:00-05:00\n' > now5.cfg
TZ=UTC "$HR" -c empty.cfg --no-database -l only.yaml --no-color summary 2020/01/01 > exp.txt 2>&1
TZ=UTC "$HR" -c now5.cfg  --no-database -l log3.yaml --no-color summary today > obs.txt 2>&1
check "config Now=2020-01-01T12:00:00-05:00: 'summary today' shows 2020/01/01" exp.txt obs.txt

# ---- 2. no --today at all: the wall clock, in three process zones
for tz in UTC America/New_York Pacific/Auckland; do
  if [ "$tz" != UTC ] && [ ! -e "/usr/share/zoneinfo/$tz" ]; then echo "skip: no zoneinfo for $tz"; continue; fi
  for attempt in 1 2; do
    D0=$(TZ=$tz date -d yesterday +%Y/%m/%d); D1=$(TZ=$tz date +%Y/%m/%d); D2=$(TZ=$tz date -d tomorrow +%Y/%m/%d)
    printf '%s:\n  a: 1\n%s:\n  b: 2\n%s:\n  c: 3\n' "$D0" "$D1" "$D2" > wall3.yaml
    printf '%s:\n  b: 2\n' "$D1" > wall1.yaml
    TZ=$tz "$HR" -c empty.cfg --no-database -l wall1.yaml --no-color summary "$D1" > exp_s.txt 2>&1
    TZ=$tz "$HR" -c empty.cfg --no-database -l wall3.yaml --no-color summary today > obs_s.txt 2>&1
    TZ=$tz "$HR" -c empty.cfg --no-database -l wall1.yaml print > exp_p.txt 2>&1
    TZ=$tz "$HR" -c empty.cfg --no-database -l wall3.yaml print -b today -e today > obs_p.txt 2>&1
    [ "$D1" = "$(TZ=$tz date +%Y/%m/%d)" ] && break   # the local day changed while we ran: once more
  done
  check "TZ=$tz, no --today, local date $D1: 'summary today' shows $D1" exp_s.txt obs_s.txt
  check "TZ=$tz, no --today, local date $D1: 'print -b today -e today' shows $D1" exp_p.txt obs_p.txt
done

if [ $fail = 1 ]; then
  echo "C06 VIOLATED: the period keywords / 'summary today' do not select the current calendar day; the result depends on the time of day and on the zone of the current date."
  exit 1
fi
echo "C06 holds for these cases"; exit 0
