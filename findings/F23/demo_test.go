// Demo for C18: Parser.ParseFile never signals completion when the file cannot be opened.
//
// Copy this file to the package directory  parser/  of the root module
// (as parser/demo_c18_test.go) and run, from the repository root:
//
//	go test -race -run TestC18ParseFileUnreadableDrainUntilDone ./parser/
//
// The test FAILS on the unchanged tree: a consumer that keeps receiving until
// Done (the loop of TestParseWg in parser_test.go) gets the open error once and
// then waits for Done for ever - ParseFile returns after `p.Errors <- err`
// without the `p.Done <- true` that ParseStream sends on every other path.
package parser_test

import (
	"path/filepath"
	"testing"
	"time"

	shared "github.com/aquilax/hranoprovod-cli/v3"
	"github.com/aquilax/hranoprovod-cli/v3/parser"
)

func TestC18ParseFileUnreadableDrainUntilDone(t *testing.T) {
	missing := filepath.Join(t.TempDir(), "no-such-log.yaml")

	// reference: what the callback parser reports for the same input
	var cbNodes int
	cbErr := parser.ParseFileCallback(missing, parser.NewDefaultConfig(), func(n *shared.ParserNode, err error) (bool, error) {
		if err != nil {
			return true, err
		}
		cbNodes++
		return false, nil
	})
	if cbErr == nil || cbNodes != 0 {
		t.Fatalf("callback parser: want 0 records and an error, got %d records, err=%v", cbNodes, cbErr)
	}

	p := parser.NewParser(parser.NewDefaultConfig())
	producerExited := make(chan struct{})
	go func() {
		p.ParseFile(missing)
		close(producerExited)
	}()

	// consumer policy "drain until Done" (the loop of TestParseWg)
	nodes, errs, done := 0, 0, false
	timeout := time.After(3 * time.Second)
loop:
	for {
		select {
		case <-p.Nodes:
			nodes++
		case <-p.Errors:
			errs++
		case <-p.Done:
			done = true
			break loop
		case <-timeout:
			break loop
		}
	}

	exited := false
	select {
	case <-producerExited:
		exited = true
	default:
	}

	t.Logf("observed: records=%d errors=%d done=%v producerExited=%v", nodes, errs, done, exited)
	if nodes != 0 || errs != 1 {
		t.Errorf("want 0 records and the open error exactly once, got %d records, %d errors", nodes, errs)
	}
	if !done {
		t.Errorf("C18 violated: the consumer that keeps receiving until completion never observes Done "+
			"(waited 3s; producer goroutine exited=%v, so Done can never arrive and the consumer blocks for ever)", exited)
	}
}
