#!/bin/sh
# C07: "quantities per food equal the balance leaf amounts".
# A log in which one food's name is a path prefix of another's (milk, milk/whole):
# balance --collapse and --collapse-last print the PARENT's subtotal next to the
# label of the leaf "milk/whole".
# usage: demo.sh /path/to/hranoprovod-cli      exit 0 = property holds, 1 = violated
HR="$1"
[ -x "$HR" ] || { echo "usage: $0 /path/to/hranoprovod-cli"; exit 2; }
T=$(mktemp -d) || exit 2
trap 'rm -rf "$T"' EXIT
export TZ=UTC
: > "$T/cfg"
printf 'milk/whole:\n  cal: 60\n' > "$T/food.yaml"
printf '2021/01/24:\n  milk: 1\n  milk/whole: 2\n' > "$T/log.yaml"
run() { "$HR" -c "$T/cfg" -d "$T/food.yaml" -l "$T/log.yaml" --no-color "$@"; }

Q=$(run report quantity | awk -F'\t' '$2=="milk/whole"{print $1}')
CSV=$(run csv log | awk -F, '$2=="milk/whole"{s+=$3} END{printf "%.2f", s}')
echo "report quantity : milk/whole = $Q"
echo "csv log (sum)   : milk/whole = $CSV"
echo "--- bal (plain)"; run bal
rc=0
for flag in --collapse --collapse-last; do
  echo "--- bal $flag"
  OUT=$(run bal $flag); echo "$OUT"
  B=$(echo "$OUT" | awk -F' [|] ' '$2=="milk/whole"{gsub(/ /,"",$1); print $1}')
  if [ "$B" != "$Q" ]; then
    echo "VIOLATION: bal $flag shows $B for leaf milk/whole, quantity report shows $Q"
    rc=1
  fi
done
# same mislabelling in the single-element balance once the book defines both foods:
# milk/whole contributes 2 x 60 = 120 cal, milk 1 x 40 = 40 cal
printf 'milk:\n  cal: 40\nmilk/whole:\n  cal: 60\n' > "$T/food.yaml"
echo "--- bal -s cal (plain)"; run bal -s cal
echo "--- bal -s cal --collapse"
OUT=$(run bal -s cal --collapse); echo "$OUT"
B=$(echo "$OUT" | awk -F' [|] ' '$2=="milk/whole"{gsub(/ /,"",$1); print $1}')
if [ "$B" != "120.00" ]; then
  echo "VIOLATION: bal -s cal --collapse shows $B for leaf milk/whole, expected 120.00 (2 x 60)"
  rc=1
fi
[ $rc = 0 ] && echo "property holds"
exit $rc
