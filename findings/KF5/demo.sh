#!/bin/sh
# C14: print must emit a normal form - printing the printed log reproduces it byte for byte,
# and the printed log reads back to the same notes.
# usage: demo.sh /path/to/hranoprovod-cli      exit 0 = property holds, 1 = violated
HR=$1
[ -x "$HR" ] || { echo "usage: $0 <hranoprovod-cli binary>"; exit 2; }
D=$(mktemp -d) || exit 2
trap 'rm -rf "$D"' EXIT
# an empty configuration file keeps the user's own configuration out of the run
: > "$D/cfg"
# three notes: "# name: value" whose value is only a '#', a text note that starts with
# colons, and a plain note (control). All three are read without complaint.
printf '2021/01/24:\n  # todo: #\n  # :: remember the salt\n  # barcode: 0000000000000\n  coffee/cup: 1\n' > "$D/log.yaml"

"$HR" -c "$D/cfg" --no-database -l "$D/log.yaml" print > "$D/p1.yaml" 2> "$D/e1" || { echo "first print failed:"; cat "$D/e1"; exit 2; }
"$HR" -c "$D/cfg" --no-database -l "$D/p1.yaml" print > "$D/p2.yaml" 2> "$D/e2" || { echo "second print failed:"; cat "$D/e2"; exit 1; }
"$HR" -c "$D/cfg" --no-database -l "$D/p2.yaml" print > "$D/p3.yaml" 2> "$D/e3" || { echo "third print failed:"; cat "$D/e3"; exit 1; }

echo "--- input log";              cat -A "$D/log.yaml"
echo "--- print(input)";           cat -A "$D/p1.yaml"
echo "--- print(print(input))";    cat -A "$D/p2.yaml"

if cmp -s "$D/p1.yaml" "$D/p2.yaml"; then
  echo "OK: printing the printed log reproduced it byte for byte"
  exit 0
fi
echo "VIOLATED (C14): print(print(x)) differs from print(x):"
diff "$D/p1.yaml" "$D/p2.yaml"
echo "the property demands: 'Printing the printed log reproduces it byte for byte' and that the"
echo "printed log reads back to the same notes; here the note (name 'todo', empty value) comes back"
echo "as the text note 'todo', and the text ': remember the salt' comes back as 'remember the salt'."
exit 1
