#!/bin/bash
# C07: "period totals equal the sum ... of the single-element register rows" /
#      "figures that several reports derive from the same data agree".
# `reg -s X -g` (single element grouped by food) leaves out X when it is logged directly
# (a food the book does not define counts as itself everywhere else), so the rows of
# `reg -s X -g` do not add up to `report totals` row X, to the rows of `reg -s X`
# or to the grand total of `bal -s X`.
# usage: demo.sh /path/to/hranoprovod-cli ; exit 0 = property holds, 1 = violated
BIN=${1:?path of the hranoprovod-cli binary}
BIN=$(readlink -f "$BIN")
D=$(mktemp -d); trap 'rm -rf "$D"' EXIT; cd "$D" || exit 2
export TZ=UTC
cat > food.yaml <<'X'
bread:
  calories: 250
salad:
  calories: 20
X
cat > log.yaml <<'X'
2021/01/01:
  bread: 2
  calories: 100
2021/01/02:
  salad: 1
  calories: 30
X
HR="$BIN --no-color -c /dev/null -d food.yaml -l log.yaml"
$HR reg -s calories -g > g.txt || exit 2
$HR reg -s calories > s.txt || exit 2
$HR report totals > t.txt || exit 2
$HR bal -s calories > b.txt || exit 2
echo "--- reg -s calories -g"; cat g.txt
echo "--- reg -s calories"; cat s.txt
echo "--- report totals"; cat t.txt
echo "--- bal -s calories"; cat b.txt
sum_g=$(awk '{s+=$1} END{printf "%.2f", s}' g.txt)
sum_s=$(awk '{sub(/^=/,"",$NF); s+=$NF} END{printf "%.2f", s}' s.txt)
tot=$(awk '$4=="calories"{print $3}' t.txt)
bal=$(awk '$3=="calories" && p {print $1} /^-+\|$/{p=1}' b.txt)
echo "sum of reg -s calories -g rows: $sum_g ; sum of reg -s calories rows: $sum_s ; report totals: $tot ; bal -s grand total: $bal"
if [ "$sum_g" != "$tot" ] || ! grep -q $'\tcalories$' g.txt; then
  echo "VIOLATION: reg -s calories -g omits the 130.00 calories that were logged directly: its rows add up to $sum_g, the period total is $tot"
  echo "expected: a row '    130.00<TAB>calories' (the directly logged element counts as itself), rows adding up to $tot"
  exit 1
fi
echo OK; exit 0
