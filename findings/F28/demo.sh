#!/bin/bash
# C16: the default configuration file is documented (docs/configuration-file.md) to be
# $HOME/.hranoprovod/config, but the program looks it up in the home directory of the
# password database entry (os/user.Current) and ignores $HOME.
# usage: demo.sh /path/to/hranoprovod-cli     exit 0 = property holds, 1 = violated
HR=$(readlink -f "$1")
T=$(mktemp -d); trap 'rm -rf "$T"' EXIT
mkdir -p "$T/home/.hranoprovod" "$T/work"
cd "$T/work" || exit 2
unset HR_DATABASE HR_LOGFILE HR_CONFIG HR_DATE_FORMAT HR_MAXDEPTH
export HOME="$T/home"
# default log (documented default: ./log.yaml) and the log named by the configuration file
printf '2021/01/01:\n  from-default-log: 1\n' > log.yaml
printf '2021-01-01:\n  from-config-log: 1\n' > "$T/cfglog.yaml"
printf '[Global]\nLogFileName=%s\nDateFormat=2006-01-02\n' "$T/cfglog.yaml" > "$HOME/.hranoprovod/config"

obs=$("$HR" --no-database print 2>&1)
exp=$("$HR" --no-database -c "$HOME/.hranoprovod/config" print 2>&1)   # the same file named explicitly
echo "HOME=$HOME"
echo "default shown by --help: $("$HR" --help | grep -- '--config')"
echo "--- observed (no -c, configuration file at \$HOME/.hranoprovod/config):"; echo "$obs"
echo "--- expected (what the same file gives when named with -c):"; echo "$exp"
if [ "$obs" = "$exp" ]; then echo "C16 holds: default configuration file read from \$HOME/.hranoprovod/config"; exit 0; fi
echo "C16 VIOLATED: the configuration file at the documented default location \$HOME/.hranoprovod/config is not read; log path and date format fall through to the built-in defaults."
exit 1
