#!/bin/sh
# C10 demo: a log file name that cannot be opened (the empty name, e.g. -l "$LOG" with LOG unset,
# or HR_LOGFILE exported empty) yields an empty report with exit status 0 instead of an error.
# usage: demo.sh /path/to/hranoprovod-cli     exit 0 = property holds, exit 1 = violated
HR=${1:?path of the hranoprovod-cli binary}
case $HR in /*) ;; *) HR=$PWD/$HR ;; esac
D=$(mktemp -d) || exit 2
trap 'rm -rf "$D"' EXIT
cd "$D" || exit 2
: > config
printf 'apple:\n  kcal: 50\n' > food.yaml
printf '2021/01/01:\n  apple: 2\n2021/01/02:\n  apple: 3\n' > log.yaml   # a real log sits in the directory

bad=0
check() { # label, then the command
  label=$1; shift
  out=$("$@" 2>err.txt); rc=$?
  if [ $rc -eq 0 ]; then
    bad=1
    echo "VIOLATION [$label]: exit status 0, stdout has $(printf %s "$out" | wc -c) bytes, stderr: '$(cat err.txt)'"
  else
    echo "ok        [$label]: exit status $rc, stderr: $(cat err.txt)"
  fi
}

# reference: the one command that opens the log itself reports the unreadable file
check "stats -l ''"            "$HR" -c config -l '' stats
# the commands that go through WithFileReaders do not
check "reg -l ''"              "$HR" -c config --no-color -l '' reg
check "print -l ''"            "$HR" -c config -l '' print
check "csv log -l ''"          "$HR" -c config -l '' csv log
check "bal -l ''"              "$HR" -c config -l '' bal
check "report quantity -l ''"  "$HR" -c config -l '' report quantity
check "report totals -l ''"    "$HR" -c config -l '' report totals
check "HR_LOGFILE= reg"        env HR_LOGFILE= "$HR" -c config --no-color reg

if [ $bad -ne 0 ]; then
  echo
  echo "observed: the log named '' cannot be opened (open(\"\") = ENOENT; 'stats' says so), yet the report"
  echo "          commands print an empty report and exit 0 - none of the 2 headings / 2 entries of any log was read."
  echo "demanded (C10): input that cannot be read is an error, never a silently shortened (here: empty) report."
  exit 1
fi
echo "property holds"
exit 0
