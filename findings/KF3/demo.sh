#!/bin/bash
# C06: with a date format that carries a numeric zone offset, `summary DATE`
# selects two log days when the process time zone has its 25-hour day on DATE,
# and one day in every other process time zone.
# usage: demo.sh /path/to/hranoprovod-cli ; exit 0 = holds, 1 = violated
HR=$(readlink -f "$1"); [ -x "$HR" ] || { echo "usage: $0 BINARY"; exit 2; }
D=$(mktemp -d); trap 'rm -rf "$D"' EXIT; cd "$D"
unset HR_DATABASE HR_LOGFILE HR_CONFIG HR_DATE_FORMAT HR_MAXDEPTH
: > empty.cfg
cat > log.yaml <<'L'
2021/11/06 -0400:
  a: 1
2021/11/07 -0400:
  b: 2
2021/11/08 -0400:
  c: 3
L
printf '2021/11/07 -0400:\n  b: 2\n' > only.yaml
F='2006/01/02 -0700'
ref=$(TZ=UTC "$HR" -c empty.cfg --no-database -l only.yaml --date-format "$F" --no-color reg)
echo "--- reference: register of the log reduced to the day '2021/11/07 -0400' (headers only):"
echo "$ref" | grep '^2021'
fail=0
for tz in UTC Europe/Berlin Asia/Kolkata America/New_York America/Toronto; do
  out=$(TZ=$tz "$HR" -c empty.cfg --no-database -l log.yaml --date-format "$F" --no-color summary '2021/11/07 -0400')
  days=$(echo "$out" | grep '^2021' | tr '\n' ' ')
  echo "TZ=$tz  summary '2021/11/07 -0400' reports the days: $days"
  if [ "$days" != "2021/11/07 -0400 : " ]; then
    echo "VIOLATION: under TZ=$tz the summary of one calendar day also contains another log day"; fail=1
  fi
done
# the keyword form goes through the same day bounds
for tz in UTC America/New_York; do
  days=$(TZ=$tz "$HR" -c empty.cfg --no-database -l log.yaml --date-format "$F" --today '2021/11/07 -0400' --no-color summary today | grep '^2021' | tr '\n' ' ')
  echo "TZ=$tz  --today '2021/11/07 -0400' summary today reports the days: $days"
  if [ "$days" != "2021/11/07 -0400 : " ]; then echo "VIOLATION: 'summary today' under TZ=$tz contains another log day"; fail=1; fi
done
[ $fail -eq 0 ] && echo "property holds" || echo "property VIOLATED"
exit $fail
