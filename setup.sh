#!/bin/bash
# Builds everything in /verif from files on disk, offline: the Coq development
# (full .vo build, every proof checked by coqc), the extraction of the model and
# the OCaml driver. usage: setup.sh [--clean]
set -u
cd "$(dirname "$0")/coq"
if [ "${1:-}" = "--clean" ]; then
  [ -f Makefile ] && make -s clean >/dev/null 2>&1
  find . -name '*.vo' -o -name '*.vok' -o -name '*.vos' -o -name '*.glob' -o -name '.*.aux' | xargs -r rm -f
fi
coq_makefile -f _CoqProject -o Makefile > /dev/null || exit 1
timeout 3000 make -j16 2>&1 | grep -v '^make\[' > build.log
rc=${PIPESTATUS[0]}
if [ $rc -ne 0 ]; then echo "COQ BUILD FAILED"; grep -v '^COQ\|^CoqMakefile' build.log | tail -40; exit 1; fi
# property theorems: what Print Assumptions says under each of them (Props files are tiny: recompile them to capture it)
mkdir -p assumptions; rm -f assumptions/*.log assumptions/FAILED
grep '^theories/Props/C.*\.v$' _CoqProject | xargs -r -P 16 -I{} sh -c 'id=$(basename {} .v); timeout 900 coqc -Q theories HP -w -notation-overridden {} > assumptions/$id.log 2>&1 || echo "FAILED {}" >> assumptions/FAILED'
if [ -f assumptions/FAILED ]; then echo "COQ BUILD FAILED (Props)"; cat assumptions/FAILED; exit 1; fi
./extraction/build.sh || exit 1
echo "setup ok"
